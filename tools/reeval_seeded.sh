#!/bin/sh
# tools/reeval_seeded.sh [<pattern>] - re-run tools/eval_seeded.py for every stored seeded change (seeded/<id>/meta.json names the
# checks) against the current /repo HEAD and the current checks; one line per change.  Changes whose patch no longer applies to
# HEAD (the code they touch was repaired or rewritten since) are reported as such.
cd "$(dirname "$0")/.."
for d in seeded/${1:-C}*-*; do
  [ -f "$d/meta.json" ] || continue
  checks=$(python3 -c "import json;print(' '.join(json.load(open('$d/meta.json'))['checks_run']))")
  status=$(python3 -c "import json;print(json.load(open('$d/meta.json')).get('status'))")
  tools/eval_seeded.py "$d" $checks 2>/dev/null | python3 -c "
import json,sys
try:
    r=json.load(sys.stdin)
except Exception as e:
    print('$d', 'EVAL-ERROR'); sys.exit(0)
det=[k for k,v in r.get('checks',{}).items() if v['detected']]
print('$d', 'stored=$status', 'applies=%s' % r.get('patch_applies'), 'confirmed=%s' % r.get('confirmed'), 'detected_by=%s' % det)"
done
