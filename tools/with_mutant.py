#!/usr/bin/env python3
"""Run a command against a mutated scratch copy of the repo (SNAX_REPO points at the copy).

  tools/with_mutant.py mutants/<name>.json -- ./check C04 --cases 500 --no-evidence
  tools/with_mutant.py --patch some.diff -- ./check ...

The copy lives under $TMPDIR (outside /repo and /verif) and is removed afterwards.
A mutant file is {"id", "property", "file", "search", "replace", "note"} (or a list of edits under "edits").
"""
import json, os, shutil, subprocess, sys, tempfile

def main():
    args = sys.argv[1:]
    sep = args.index("--")
    spec, cmd = args[:sep], args[sep + 1:]
    repo = os.environ.get("SNAX_REPO_SRC", "/repo")
    tmp = tempfile.mkdtemp(prefix="snaxmut_")
    dst = os.path.join(tmp, "repo")
    try:
        os.makedirs(dst)
        shutil.copytree(os.path.join(repo, "snaxc"), os.path.join(dst, "snaxc"), ignore=shutil.ignore_patterns("__pycache__"))
        if spec[0] == "--patch":
            r = subprocess.run(["patch", "-p1", "-s", "-d", dst, "-i", os.path.abspath(spec[1])], capture_output=True, text=True)
            if r.returncode != 0:
                print(f"MUTANT-DOES-NOT-APPLY {spec[1]}: {(r.stdout + r.stderr).strip()[:200]}")
                return 3
        else:
            m = json.load(open(spec[0]))
            for e in m.get("edits", [m]):
                p = os.path.join(dst, e["file"])
                s = open(p).read()
                if e["search"] not in s:
                    print(f"MUTANT-DOES-NOT-APPLY {spec[0]}: search text not found in {e['file']}")
                    return 3
                open(p, "w").write(s.replace(e["search"], e["replace"], 1))
        env = dict(os.environ, SNAX_REPO=dst)
        return subprocess.run(cmd, env=env).returncode
    finally:
        shutil.rmtree(tmp, ignore_errors=True)

if __name__ == "__main__":
    sys.exit(main())
