#!/usr/bin/env python3
"""Confirm a seeded change and run our checks against it.

  tools/eval_seeded.py <dir with patch.diff + demo.py> <property> [<more properties>] [--cases N] [--base <commit>]

1. scratch git worktree of /repo HEAD under $TMPDIR; 2. demo on the clean tree must exit 0; 3. apply patch; the 68
baseline tests must still pass; demo must exit non-zero; 4. run `./check <property>` with SNAX_REPO pointing at the
patched tree; 5. remove the worktree.  Prints a JSON summary (also usable for seeded/<id>/meta.json)."""
import json, os, subprocess, sys, tempfile, shutil, re

ROOT = os.path.dirname(os.path.dirname(os.path.abspath(__file__)))

def sh(cmd, **kw):
    return subprocess.run(cmd, capture_output=True, text=True, **kw)

def main():
    args = sys.argv[1:]
    cases = None
    if "--cases" in args:
        i = args.index("--cases"); cases = args[i + 1]; del args[i:i + 2]
    base = "HEAD"
    if "--base" in args:
        i = args.index("--base"); base = args[i + 1]; del args[i:i + 2]
    d, props = os.path.abspath(args[0]), args[1:]
    tmp = tempfile.mkdtemp(prefix="seedeval_")
    wt = os.path.join(tmp, "wt")
    res = {"dir": d, "properties": props}
    try:
        sh(["git", "-C", "/repo", "worktree", "add", "-q", "--detach", wt, base])
        res["base"] = base
        env = dict(os.environ, SNAX_REPO=wt, PYTHONPATH=os.path.join(ROOT, "seeded") + ":/tmp/agent_env")
        demo = os.path.join(d, "demo.py")
        r0 = sh(["/venv/bin/python", demo], env=env, cwd=d, timeout=600)
        res["demo_clean_exit"] = r0.returncode
        ap = sh(["git", "-C", wt, "apply", os.path.join(d, "patch.diff")])
        res["patch_applies"] = ap.returncode == 0
        if ap.returncode != 0:
            res["apply_error"] = ap.stderr[-300:]
            print(json.dumps(res, indent=1)); return 1
        t = sh(["/venv/bin/python", "-m", "pytest", "-q", "-p", "no:cacheprovider", "--timeout=900", "--continue-on-collection-errors"], cwd=wt, timeout=900)
        m = re.search(r"(\d+) passed", t.stdout)
        res["tests_passed"] = int(m.group(1)) if m else 0
        res["tests_failed"] = "failed" in t.stdout.splitlines()[-1] if t.stdout else True
        r1 = sh(["/venv/bin/python", demo], env=env, cwd=d, timeout=600)
        res["demo_patched_exit"] = r1.returncode
        res["demo_patched_tail"] = (r1.stdout + r1.stderr)[-400:]
        res["confirmed"] = bool(res["demo_clean_exit"] == 0 and res["demo_patched_exit"] != 0 and res["tests_passed"] == 68 and not res["tests_failed"])
        res["checks"] = {}
        for p in props:
            cmd = [os.path.join(ROOT, "check"), p, "--no-evidence"] + (["--cases", cases] if cases else [])
            c = sh(cmd, env=dict(os.environ, SNAX_REPO=wt), cwd=ROOT, timeout=3600)
            lines = [l for l in c.stdout.splitlines() if "oracle=" in l or l.startswith("VIOLATION") or l.startswith("HARNESS")]
            res["checks"][p] = {"exit": c.returncode, "detected": c.returncode == 1, "first": lines[:3]}
    finally:
        sh(["git", "-C", "/repo", "worktree", "remove", "--force", wt])
        shutil.rmtree(tmp, ignore_errors=True)
    print(json.dumps(res, indent=1))
    return 0

if __name__ == "__main__":
    sys.exit(main())
