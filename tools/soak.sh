#!/bin/sh
# tools/soak.sh <tier> <seed> [<seed> ...]  - run every claimed check with several seeds; print only alarms
cd "$(dirname "$0")/.."
tier=$1; shift
for seed in "$@"; do
  for p in $(python3 -c "import json;print(' '.join(c['property_id'] for c in json.load(open('MANIFEST.json'))['checks']))"); do
    out=$(./check $p --tier $tier --seed $seed --no-evidence 2>&1)
    rc=$?
    echo "seed=$seed $p rc=$rc $(echo "$out" | grep SUMMARY | cut -c1-160)"
    if [ $rc -ne 0 ]; then echo "$out" | grep -E -A2 "VIOLATION|HARNESS" | cut -c1-400; fi
  done
done
