#!/usr/bin/env python3
"""Regenerates /verif/MANIFEST.json from the tables below (keeps it valid at all times)."""
import json, os
ROOT = os.path.dirname(os.path.dirname(os.path.abspath(__file__)))

NA = {
 "C02": "Pure function (schedule pattern, operand layout, streamer geometry) -> stride tuple; nothing at run time is nondeterministic; deciding it is address-stream enumeration against the layout, i.e. input generation, not simulation.",
 "C03": "Pure combinatorial identity on integer matrices and bounds (rotate/tile/add_dim/backtracking preserve the image of the iteration box); no execution, schedule or fault involved.",
 "C08": "Positional agreement of two compile-time lists (field names vs generated values) per configuration; a pure function of the configuration object.",
 "C09": "Injectivity and coverage of a compile-time layout function chosen by set-memory-layout; pure function of (schedule, shape, width).",
 "C10": "Agreement between pure views of one data structure (affine map, strides, enumeration, printer/parser); no state evolves, nothing executes.",
 "C16": "Post-conditions of the pure scheduler search and of the template-matching predicate; no schedule, clock, fault or interleaving in it.",
 "C18": "Equivalence of scalar integer functions of op bodies and a static dispatch predicate; pure functions of their input.",
 "C19": "Semantic equality and idempotence of pure canonicalisers, matrix/affine conversions, bit packing, attribute round-trips; pure functions of their input.",
}
PENDING = "Simulation target per DESIGN.md, check not built yet in this round (will be claimed when its machine exists)."

CHECKS = {
 "C01": dict(text="Seeded search: the current tree's accfg-trace-states and accfg-dedup are run on thousands of generated accfg programs; reference and deduplicated program are both executed on a simulated core with asynchronous accelerator register files under the same seeded environments (trip counts incl. 0, branch outcomes, register clobbers by effectful calls, device latencies) and their launch/await/call histories and register snapshots at launches are compared. Evidence of absence within the bounds, not proof.",
              note="Open known finding KF-C01-1 (setup fields are pulled in front of a loop that then does not iterate; enshrined in upstream's acc-dedup.mlir) is attributed by re-running the case with the hoisting restricted to loops that are known to iterate, and only for programs with a setup that writes only some fields in an environment where a loop really does not run. Trusts the IR interpreter and device model in /verif (assumptions A1-A3), xDSL 0.70 + irdl_options shim instead of the pinned xDSL commit; bounds: <=24 statements, nesting<=3, <=2 accelerators x <=6 fields, trip counts 0..4 and 9.",
              tech="deterministic simulation of the emitted accfg program (reference vs deduplicated) with seeded clobber/latency faults; history refinement oracle", ref="5 C01"),
 "C04": dict(text="Seeded search over (accelerator configuration, accfg program) pairs: the register map comes from generate_acc_op() of the current tree for seeded streamer configurations of every accelerator class; the program is lowered by convert-accfg-to-csr and executed on a CSR-level device model (registers by address, launch/busy/barrier conventions, RoCC decoder) next to the accfg-level reference under clobber, latency and CSR-garbage faults. Compared: per-field write history through the declared map, register snapshot by address at every launch (where a non-injective map shows), await behaviour, RoCC operand pairs, and that no accfg value survives.",
              note="Open known finding KF-C04-1 (the per-channel gemmx launch lowering writes tracked fields behind the state tracking) is attributed by a counterfactual run of the reference model; KF-C04-2 (RoCC: the half of an instruction pair that a setup without a known incoming state leaves alone is emitted as 0) masks only gemmini mismatches of exactly that form in programs with such a half-written pair. Trusts the CSR device model written from the docstrings in accelerators/snax.py (polling conventions, status registers at launch_streamer+1/+2, clearing write 0x3c5 for hwpe_mult); barrier styles 2 and 4 (unused by any accelerator class of the repo) are exercised through synthetic accelerators defined in /verif; gemmx mult_vals launches are not generated; PHS accelerator built with a duck-typed PE/template; values compared mod 2^32 / 2^64.",
              tech="deterministic simulation of the lowered CSR program against a device model with seeded latency / CSR-garbage / clobber faults; refinement of the accfg-level history through the declared register map", ref="5 C04"),
 "C11": dict(text="Seeded search (degenerate use of the simulator: one core, no interleaving; injected nondeterminism: L1 window, alignments, solver packing order, runtime shapes): (size) the size arithmetic emitted by memref-to-snax is executed with runtime shapes and compared with the highest byte an independent layout oracle says the layout touches; (place) functions with allocs, subviews, casts and uses in straight-line and nested code are lowered by memref-to-snax,canonicalize,snax-allocate in all four modes and executed on a memory with ownership shadow: uses stay inside their allocation, the window and the alignment, and buffers live at the same time never share addresses.",
              note="Open known finding KF-C11-1 (minimalloc restarts at offset 0 in every function) masks only overlaps between buffers of different functions. The minimalloc solver is a stub (first-fit interval packer, seeded order): what is checked of the repo is the lifetime computation, address materialisation and size formula; uses touch first/last byte of their view; row-major 1-D buffers in the placement family; A8 for dynamic TSL steps.",
              tech="deterministic simulation of the allocated program on a memory with ownership shadow; seeded windows / alignments / solver answers (no schedule/fault dimension)", ref="5 C11"),
 "C12": dict(text="Seeded search (degenerate use of the simulator: one core, no interleaving): functions with arguments, allocs and kernels in loops are compiled with set-memory-space,realize-memref-casts and executed on symbolic buffer contents next to the uncompiled reference (kernels operate on the arguments directly): every kernel must read the provenance the reference read, the arguments must end equal, every kernel operand must be in L1, argument types keep L3, and the output must respect SSA dominance. Constants and globals re-laid-out at compile time are decoded byte by byte with an independent layout oracle.",
              note="Open known finding KF-C12-1 (no copy-in for an accumulating output; enshrined in upstream's realize-memref-casts.mlir) masks only cases whose first wrong kernel is an accumulating one. Data failures are judged only when every cast value is first read (or never read): programs that first write then read an argument through its cast are reported as OBSERVATION, because the statement words the copy-in as 'before its first reader'. alloc-to-global is not exercised; RemoveTransposeConstants is applied as a rewrite pattern (its pass shells out to mlir-opt). Buffers of 4 elements, <= 12 kernels, loop nesting <= 2, trips 0..2.",
              tech="deterministic simulation of reference vs compiled program on symbolic buffer contents; provenance refinement + static dominance/memory-space oracles (no schedule/fault dimension)", ref="5 C12"),
 "C13": dict(text="Seeded search over schedules: the function produced by insert-sync-barrier (optionally followed by dispatch-regions) is executed by 2-4 simulated cores on shared symbolic memory; a seeded scheduler decides every interleaving, stall and DMA/kernel burst split. A barrier-epoch race monitor checks every memory cell online, the barrier model detects deadlock, and final buffer contents plus everything each copy/kernel read are compared with the sequential single-core reference. A quarter of the cases runs the static-allocation slice of the snaxc pipeline (insert-sync-barrier, memref-to-snax, canonicalize, snax-allocate{minimalloc}, insert-sync-barrier) on address-indexed memory, so that a buffer whose address is handed out again is protected only by the barrier in front of its dealloc.",
              note="Trusts the cluster model in /verif (A4-A6: non-atomic multi-burst copies/kernels, all-core barrier, collective allocs), whole buffers and (30% of cases) subviews of one allocation, streaming regions, multi-block functions, late allocations / explicit deallocs with address reuse (minimalloc replaced by a first-fit packer); buffers of 4 elements, <=16 statements, nesting<=3, trip counts 0..3.",
              tech="deterministic multi-core simulation with seeded scheduler (interleavings, stalls, burst sizes); race monitor + deadlock invariant + refinement against sequential reference", ref="5 C13"),
 "C14": dict(text="Seeded search: the function produced by dispatch-regions{nb_cores=N} (N=2..5; thorough also function-constant-pinning) is executed by all N simulated cores; each core's history of executed tagged operations with evaluated operands must equal the original sequential history filtered by the dispatch rule (restated independently in /verif), and no schedule may deadlock at a barrier.",
              note="Trusts the interpreter and cluster model; functions with scf control flow and (20% of cases) several blocks linked by cf.br / cf.cond_br; copies, linalg.generic and dart streaming regions (XDMA extension kernels = data mover, snax_alu = compute) as dispatchable ops; interleavings are randomised only because the deadlock invariant depends on them (the history oracle does not).",
              tech="deterministic multi-core simulation; per-core history refinement against the filtered sequential reference, deadlock invariant", ref="5 C14"),
 "C15": dict(text="Seeded search over schedules and trip counts: pipeline-shaped loops are compiled with construct-pipeline, pipeline-duplicate-buffers, unroll-pipeline (optionally prefixed by pipeline-canonicalize-for or followed by insert-sync-barrier,dispatch-regions) and executed by 2-3 simulated cores under seeded interleavings, stalls and burst splits; compared with the sequential loop: multiset of (stage op, external tile, data read), final contents of the function arguments, set of external cells touched; race monitor and barrier deadlock online.",
              note="Trusts the cluster model (A4-A6); tiles of 2 elements, 2-4 stages, trip counts 0..6, lb in {0,1,3}, step in {1,2}; after fix 8d5b077 only loops with constant lb 0 / step 1 / ub >= #stages-1 are pipelined, other environments check that the loop is left alone.",
              tech="deterministic multi-core simulation with seeded scheduler (interleavings, stalls, bursts); exactly-once/provenance multiset, final-state refinement against the sequential loop, race monitor", ref="5 C15"),
 "C17": dict(text="Seeded search (degenerate use of the simulator: one core, no schedule, no fault): loop nests with tagged effect ops, allocations, dim/subview/affine.min sizes are compiled with pipeline-canonicalize-for and/or reuse-memref-allocs; original and transformed function are executed under seeded runtime bounds and shapes and their traces of (op, evaluated index operands, allocation site / offsets / sizes of memref operands) must be identical; static SSA dominance of the output. Two genuine defects enshrined in upstream expectations are recorded as known findings KF-C17-1/2; a third (ub // step) was repaired in /repo.",
              note="No interleaving or fault enters this property (evidence reports distinct_interleavings = 1); trusts the interpreter; bounds: depth <= 3, constant bounds <= 8, dynamic bounds <= 5. Known-finding triggers mask effect-trace mismatches only in programs containing an imperfect constant-bound nest (KF-C17-1) or alloc(dim(subview[affine.min])) (KF-C17-2).",
              tech="deterministic simulation of original vs restructured loop nest on one core; effect-trace equality (no schedule/fault dimension)", ref="5 C17"),
 "C05": dict(text="Seeded search (degenerate use of the simulator: one core, no interleaving; the only injected nondeterminism is buffer placement and the row order of 2-D DMA transfers): a memref.copy between two seeded layouts is lowered by snax-copy-to-dma and executed on a byte-addressed memory with the runtime's DMA semantics; every DMA byte is checked online against the source/destination footprints and afterwards every logical element must sit at the address an independent layout oracle assigns to it.",
              note="Open known finding KF-C05-1 (common-block search continues past dynamic strides; enshrined in upstream's copy_to_dma.mlir) is attributed by re-running the case with the search stopped at dynamic strides. Trusts the DMA model (A7, snax_rt.h) and the layout oracle written from ir/tsl/README.md; dynamic TSL steps follow A8; <= 512 elements, rank <= 4, tile depth <= 3; layouts are injective and source/destination disjoint by construction.",
              tech="deterministic simulation of the emitted DMA loop nest on a byte memory with footprint shadows; seeded placement and burst order (no schedule/fault dimension)", ref="5 C05"),
 "C06": dict(text="Seeded search as C01 with the subject accfg-config-overlap applied to traced / deduplicated programs, compared against its own input only on environments where that input was right and its state links truthful; also static SSA dominance and run-time undefined-value detection. One genuine defect is recorded as known finding KF-C06-1.",
              note="As C01; large latencies make moved setups execute inside the accelerator's busy window (probe setup-while-busy); known finding KF-C06-1 masks launch-snapshot mismatches only in programs whose loop body has two setups of one accelerator followed by a later setup of it, with dedup before overlap, or - without dedup - on a field that a setup in a loop writes and a setup that can execute after that loop leaves alone.",
              tech="deterministic simulation (reference vs overlapped program) with seeded clobber/latency faults; history refinement + dominance oracle", ref="5 C06"),
 "C07": dict(text="Seeded search: every !accfg.state value the traced program defines or consumes is checked, at run time on the simulated machine, against the repo's own infer_state_of claims (field -> SSA value must equal the concrete register now) and against the dynamically last writer of the accelerator (threading), under clobber faults at any nesting depth, all trip counts and branch outcomes.",
              note="As C01; the contract for which ops may clobber (A2) is re-implemented in /verif, independent of has_accfg_effects.",
              tech="deterministic simulation with fault injection (register clobbers by un-annotated calls); online invariants comparing the compiler's inferred state with the concrete register file", ref="5 C07"),
 "C20": dict(text="Seeded search over merge histories (a history machine, no schedule or fault exists for this object): 1-5 kernel bodies are merged one after the other into the real abstract phs.PEOp by append_to_abstract_graph; after every merge every kernel merged so far is decoded again and the PE, configured with the decoded switches, is evaluated by an independent PE interpreter on a small exhaustive grid plus seeded data points against direct evaluation of the kernel; decode must succeed for every merged kernel and return exactly get_true_switches() values.",
              note="Kernels of 1-3 integer add/sub/mul or float addf/subf/mulf ops over 2-3 inputs; finite inputs; trusts the 40-line PE interpreter in /verif.",
              tech="reference-model state machine over seeded merge/decode histories with an executable PE interpreter as oracle (no schedule/fault dimension)", ref="5 C20"),
}

def main():
    checks = []
    for pid in sorted(CHECKS):
        c = CHECKS[pid]
        checks.append({
            "property_id": pid,
            "quick_cmd": f"./check {pid} --tier quick",
            "thorough_cmd": f"./check {pid} --tier thorough",
            "evidence_file": f"evidence/{pid}.json",
            "replay_cmd_template": "./check replay {path}",
            "engine": "simsnax",
            "level_claimed": {"category": "exploration", "text": c["text"], "design_ref": "DESIGN.md §" + c["ref"]},
            "level_note": c["note"],
            "technique": c["tech"],
        })
    na = [{"property_id": k, "reason": v} for k, v in sorted(NA.items())]
    allp = [json.loads(l)["id"] for l in open(os.path.join(ROOT, "properties.jsonl"))]
    for p in allp:
        if p not in CHECKS and p not in NA:
            na.append({"property_id": p, "reason": PENDING})
    na.sort(key=lambda x: x["property_id"])
    m = {
        "version": 1,
        "setup_cmd": "./check setup",
        "hooks": {"guard": "SNAX_MLIR_VERIF", "enable": "no hooks in /repo: every seam is on the simulated-target side in /verif; checks import the current /repo tree (or $SNAX_REPO) in a fresh interpreter",
                  "baseline_off_cmd": "cd /repo && /venv/bin/python -m pytest -ra -q -p no:cacheprovider --timeout=900 --continue-on-collection-errors",
                  "source_commits": [], "add_only": True},
        "engines": [{"name": "simsnax", "path": "simsnax/", "serves_properties": sorted(CHECKS), "kind_free_text": "deterministic simulator of a SNAX cluster (cores, barrier, DMA, accelerator CSR devices) executing the IR emitted by the repo's passes; seeded scheduler and fault injection; reference-model oracles"}],
        "checks": checks,
        "not_applicable": na,
        "notes": "See DESIGN.md. Exit codes: 0 held, 1 VIOLATION, 2 harness error. Known findings in known_findings.json (replays under known/). Genuine defects repaired in /repo by 'fix:' commits are listed there as fixed entries.",
    }
    json.dump(m, open(os.path.join(ROOT, "MANIFEST.json"), "w"), indent=1)
    print("wrote MANIFEST.json:", len(checks), "checks,", len(na), "not applicable")

if __name__ == "__main__":
    main()
