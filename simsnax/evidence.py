"""Evidence writer (DESIGN.md §9); the file is rewritten by every run of a check."""
from __future__ import annotations

import json
import os

ROOT = os.path.dirname(os.path.dirname(os.path.abspath(__file__)))


def write(mod, prop_id, tier, seed, wall, total, distinct, interleavings, samples, replays, kf_lines, digest, workers):
    meta = getattr(mod, "META", {})
    runs = max(total["runs"], total["cases"])
    cov = {
        "evaluations": runs,
        "distinct_nontrivial": distinct,
        "rule": mod.RULE,
        "samples": samples,
        "programs": total["cases"],
        "programs_ok": total["ok"],
        "rejected_by_exception": total["rejected"],
        "violating_cases": total["violation_count"],
        "known_findings_reproduced": kf_lines,
        "known_finding_hits_in_exploration": total["known"],
        "simulated_runs": runs,
        "simulated_runs_per_hour": int(runs / wall * 3600) if wall > 0 else 0,
        "seeds_per_hour": int(total["cases"] / wall * 3600) if wall > 0 else 0,
        "simulated_steps": total["steps"],
        "simulated_time_note": "one step = one interpreted operation / atomic device action; the step counter is the simulated clock",
        "fault_kinds_fired": total["faults"],
        "zero_fault_runs": total["zero_fault_runs"],
        "distinct_interleavings": interleavings if interleavings else 1,
        "interleaving_measure": meta.get("interleavings", "hash of the per-run sequence of (core, sync-relevant event)"),
        "probes": total["probes"],
        "real_components": meta.get("real", []),
        "stub_components": meta.get("stub", []),
        "replays": replays,
        "event_log_digest": digest,
        "workers": workers,
        "exhaustive": False,
    }
    doc = {
        "property_id": prop_id,
        "tier": tier,
        "seed": seed,
        "level": "exploration",
        "coverage": cov,
        "assumptions": meta.get("assumptions", []),
        "wall_s": round(wall, 2),
        "violations": len(replays),
    }
    os.makedirs(os.path.join(ROOT, "evidence"), exist_ok=True)
    with open(os.path.join(ROOT, "evidence", f"{prop_id}.json"), "w") as f:
        json.dump(doc, f, indent=1, sort_keys=True)
