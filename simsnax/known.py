"""Known findings (DESIGN.md §8): committed in /verif/known_findings.json, never written at run time.

Each open finding has a committed replay file (its specific failing input) and names a *trigger
predicate* defined here over (case, violation outcome).  A violation met during exploration is
attributed to a finding only if the predicate holds for that very case; everything else is still
a VIOLATION.  `fixed:` entries suppress nothing.
"""
from __future__ import annotations

import json
import os

ROOT = os.path.dirname(os.path.dirname(os.path.abspath(__file__)))
_CACHE = None

#: trigger name -> predicate(case, outcome) -> bool ; filled by the property modules' TRIGGERS dicts
TRIGGERS: dict = {}


def _all():
    global _CACHE
    if _CACHE is None:
        p = os.path.join(ROOT, "known_findings.json")
        _CACHE = json.load(open(p)) if os.path.exists(p) else {"findings": [], "fixed": []}
    return _CACHE


def load_findings(prop_id: str):
    return [f for f in _all()["findings"] if f["property"] == prop_id]


def match(prop_id: str, case, outcome):
    """id of the open known finding whose trigger predicate holds for this violation, or None."""
    import importlib

    mod = importlib.import_module(f"simsnax.props.{prop_id.lower()}")
    trig = getattr(mod, "TRIGGERS", {})
    for f in load_findings(prop_id):
        if f.get("status") != "open":
            continue
        pred = trig.get(f["trigger"])
        if pred is not None and pred(case, outcome):
            return f["id"]
    return None
