"""accfg-level machine (DESIGN.md §3.1 "Accelerator devices", §5 C01/C06/C07).

One core, asynchronous accelerators with name-indexed register files.

* launch latches the register file (assumption A1) and makes the device busy for `latency` steps;
* await blocks until the device is idle (the clock jumps: discrete-event);
* an op that may touch accelerator registers under the contract A2 (func.call / llvm.call without
  `accfg.effects = none`, or anything carrying `accfg.effects = full`) *clobbers*: a subset of
  fields of every accelerator, chosen by a pure hash of (site tag, dynamic occurrence, run seed),
  is overwritten with a marker value.  The contract is re-implemented here on purpose - the
  repo's `has_accfg_effects` is code under test.
"""
from __future__ import annotations

from . import compat

compat.install()

from xdsl.dialects import func, llvm, test  # noqa: E402

from snaxc.dialects import accfg  # noqa: E402

from .interp import Core, HarnessError, Machine, Violation, make_handler  # noqa: E402
from .tape import hkey  # noqa: E402


TABLE: dict = {}
handler = make_handler(TABLE)


def contract_effects(op) -> bool:
    """A2, leaf level (nested ops are reached by executing them)."""
    a = op.attributes.get("accfg.effects")
    if isinstance(a, accfg.EffectsAttr):
        return a.data != accfg.EffectsEnum.NONE
    return isinstance(op, (func.CallOp, llvm.CallOp))


def accelerators_of(mod) -> dict[str, list[str]]:
    """accelerator name -> sorted field names mentioned anywhere in the module."""
    out: dict[str, set[str]] = {}
    for op in mod.walk():
        if isinstance(op, accfg.AcceleratorOp):
            out.setdefault(op.name_prop.string_value(), set()).update(op.field_names())
        elif isinstance(op, accfg.SetupOp):
            out.setdefault(op.accelerator.data, set()).update(p.data for p in op.param_names)
        elif isinstance(op, accfg.LaunchOp):
            out.setdefault(op.accelerator.data, set())
    return {k: sorted(v) for k, v in out.items()}


class Device:
    def __init__(self, name, fields, label):
        self.name = name
        self.regs = {f: ("poweron", label, f) for f in fields}
        self.written: set[str] = set()
        #: fields written since the last op that may have clobbered the accelerator (whether or not it did)
        self.known: set[str] = set()
        self.busy_until = 0
        self.last_writer = ("poweron",)
        self.launches = 0


class AccfgMachine(Machine):
    EXTRA = TABLE

    def __init__(self, mod, env, accs: dict[str, list[str]], label="ref", check_infer=False, check_thread=False, infer_cache=None, log_setups=False, poweron_zero=()):
        super().__init__(mod)
        self.env = env
        self.seed = env["seed"]
        self.dev = {a: Device(a, fs, label) for a, fs in accs.items()}
        self.hist: list = []
        self.log_setups = log_setups
        for a in poweron_zero:
            for f in self.dev[a].regs:
                self.dev[a].regs[f] = 0
        self.check_infer = check_infer
        self.pc_side_effects = True
        self.check_thread = check_thread
        self.evid = 0
        self.probes: dict[str, int] = {}
        self.faults: dict[str, int] = {}
        self.infer = None
        # infer_state_of is a pure function of the (unchanging) IR: evaluated once per SSA value
        self.infer_cache = infer_cache if infer_cache is not None else {}
        if check_infer:
            from snaxc.inference.trace_acc_state import infer_state_of

            self.infer = infer_state_of

    # -- bookkeeping
    def probe(self, name, n=1):
        self.probes[name] = self.probes.get(name, 0) + n

    def fault(self, name, n=1):
        self.faults[name] = self.faults.get(name, 0) + n

    def device(self, acc) -> Device:
        d = self.dev.get(acc)
        if d is None:
            raise HarnessError(f"unknown accelerator {acc}")
        return d

    # -- C07 invariant 1: whatever the compiler infers about a state value is true now
    def check_state(self, v, vals, where):
        if not self.check_infer:
            return
        st = self.infer_cache.get(v)
        if st is None:
            try:
                st = self.infer(v)
            except (ValueError, AssertionError, KeyError, IndexError, RecursionError):
                st = "raised"
            self.infer_cache[v] = st
        if st == "raised":
            self.probe("infer-raised")
            return
        d = self.device(v.type.accelerator.data)
        self.probe("state-claims-checked", len(st))
        for f, ssa in st.items():
            if ssa not in vals:
                self.probe("claim-on-undefined-value")
                continue
            if d.regs.get(f) != vals[ssa]:
                raise Violation(
                    "inferred-state",
                    f"at {where}: compiler assumes {d.name}.{f} holds a value equal to {vals[ssa]!r} but the register holds {d.regs.get(f)!r}",
                    field=f,
                    where=where,
                )

    # -- C07 invariant 2: a consumed state was produced by the dynamically last writer
    def check_link(self, v, vals, where):
        if not self.check_thread:
            return
        d = self.device(v.type.accelerator.data)
        sv = self.get(vals, v)
        if sv[1] != d.last_writer:
            raise Violation(
                "state-threading",
                f"at {where}: consumed state was produced by {sv[1]!r} but the accelerator was last touched by {d.last_writer!r}",
                where=where,
            )

    # -- loop / if hooks: state-typed block arguments and results are checked on every iteration
    def on_for_head(self, op, vals, core):
        if self.check_infer:
            for a in op.body.block.args[1:]:
                if isinstance(a.type, accfg.StateType):
                    self.check_state(a, vals, "loop head")
                    self.probe("loop-head-state-checked")

    def on_for_exit(self, op, vals, core):
        a = op.attributes.get("accfg.effects")
        if isinstance(a, accfg.EffectsAttr) and a.data != accfg.EffectsEnum.NONE:
            # the provider of the IR says that this loop as a whole touches the accelerators (A2): it does
            tag = _tag(op)
            k = core.occurrence(("annotated-for", tag))
            self.hist.append(("call", tag, k))
            self.clobber(tag, k)
            self.probe("annotated-region-op")
            return  # (no state can be claimed for its results)
        if self.check_infer:
            for r in op.results:
                if isinstance(r.type, accfg.StateType):
                    self.check_state(r, vals, "scf.for result")

    def on_if_exit(self, op, vals, core):
        a = op.attributes.get("accfg.effects")
        if isinstance(a, accfg.EffectsAttr) and a.data != accfg.EffectsEnum.NONE:
            # the provider of the IR says that this conditional as a whole touches the accelerators (A2): it does
            tag = _tag(op)
            k = core.occurrence(("annotated-if", tag))
            self.hist.append(("call", tag, k))
            self.clobber(tag, k)
            self.probe("annotated-region-op")
            return  # (no state can be claimed for its results)
        if self.check_infer:
            for r in op.results:
                if isinstance(r.type, accfg.StateType):
                    self.check_state(r, vals, "scf.if result")

    def clobber(self, tag, k):
        fired = False
        for name in sorted(self.dev):
            d = self.dev[name]
            if self.env.get("clobber"):
                for f in sorted(d.regs):
                    if hkey(self.seed, "clob", tag, k, name, f) % 2:
                        d.regs[f] = ("clob", tag, k, f)
                        d.written.add(f)
                        fired = True
            # the call is a writer in the threading sense whether or not it changed anything
            d.last_writer = ("call", tag, k)
            d.known.clear()
        if fired:
            self.fault("clobber")
            if any(d.busy_until > self.now for d in self.dev.values()):
                self.probe("clobber-while-busy")


def _tag(op):
    a = op.attributes.get("vtag")
    if a is None:
        raise HarnessError(f"{op.name} without a site tag")
    return a.value.data


@handler(accfg.SetupOp)
def _setup(m: AccfgMachine, op, vals, core):
    d = m.device(op.accelerator.data)
    if op.in_state is not None:
        m.check_state(op.in_state, vals, "setup in_state")
        m.check_link(op.in_state, vals, "setup in_state")
        m.get(vals, op.in_state)
    if d.busy_until > m.now:
        m.probe("setup-while-busy")
    for name, v in op.iter_params():
        d.regs[name] = m.get(vals, v)
        d.written.add(name)
        d.known.add(name)
    if m.log_setups:
        m.hist.append(("setup", d.name, tuple((n, m.get(vals, v)) for n, v in op.iter_params()), dict(d.regs), frozenset(d.known), op.in_state is not None))
    m.evid += 1
    d.last_writer = ("setup", m.evid)
    vals[op.out_state] = ("state", d.last_writer)
    m.check_state(op.out_state, vals, "setup result")


@handler(accfg.LaunchOp)
def _launch(m: AccfgMachine, op, vals, core):
    d = m.device(op.accelerator.data)
    m.check_state(op.state, vals, "launch state")
    m.check_link(op.state, vals, "launch state")
    m.get(vals, op.state)
    if d.busy_until > m.now:
        m.probe("launch-while-busy")
    d.launches += 1
    lat = m.env.get("latency", 0)
    if lat:
        lat = 1 + hkey(m.seed, "lat", d.name, d.launches) % lat
        m.fault("latency")
    d.busy_until = m.now + lat
    lv = tuple((n, m.get(vals, v)) for n, v in op.iter_params())
    w = frozenset(d.written)
    if "mult_vals" in op.attributes:
        # gemmx launch with per-output-channel quantisation (comments of SNAXGEMMXAccelerator.lower_acc_launch): the
        # streamers are launched once, then for every group of n channels the shift / mult registers are
        # re-programmed, the array is launched and awaited; M and the temporal loop bound are divided by the
        # number of groups.  Expected register contents at each of these launches, and what is left behind:
        n = sum(1 for f in d.regs if f.startswith("mult_"))
        mult = [x for x in op.attributes["mult_vals"].get_values()]
        shift = [x for x in op.attributes["shift_vals"].get_values()]
        groups = len(mult) // n
        new_m = op.attributes["m"].value.data // groups
        keep = None if m.pc_side_effects else (dict(d.regs), set(d.written), set(d.known))
        d.regs["M"] = d.regs["temporal_loop_bound"] = new_m
        d.written |= {"M", "temporal_loop_bound"}
        d.known |= {"M", "temporal_loop_bound"}
        # the streamer launch comes first; the quantisation registers are re-programmed after it, so what they hold at
        # that moment is not part of what this launch observes
        quant = {f for f in d.regs if f.startswith(("shift_", "mult_"))}
        snaps = [({f: d.regs[f] for f in sorted(d.regs) if f not in quant}, frozenset(d.written - quant))]
        for g in range(groups):
            sh = shift[g * n : g * n + n]
            for j in range(0, len(sh), 4):
                word = 0
                for k, x in enumerate(sh[j : j + 4]):
                    word |= (x & 0xFF) << (8 * k)  # value k of a group sits in byte k % 4 of shift_{k // 4}
                d.regs[f"shift_{j // 4}"] = word
                d.written.add(f"shift_{j // 4}")
                d.known.add(f"shift_{j // 4}")
            for j, x in enumerate(mult[g * n : g * n + n]):
                d.regs[f"mult_{j}"] = x
                d.written.add(f"mult_{j}")
                d.known.add(f"mult_{j}")
            snaps.append(({f: d.regs[f] for f in sorted(d.regs)}, frozenset(d.written)))
        m.hist.append(("pclaunch", d.name, lv, snaps))
        m.probe("per-channel-launch")
        if keep is not None:
            # counterfactual used to attribute a difference: a launch that leaves the registers as the state tracking believes
            d.regs, d.written, d.known = keep
    else:
        m.hist.append(("launch", d.name, lv, {f: d.regs[f] for f in sorted(d.regs)}, w, frozenset(d.known)))
    vals[op.token] = ("token", d.name, d.launches)
    if core.loops:
        m.probe("launch-in-loop")


@handler(accfg.AwaitOp)
def _await(m: AccfgMachine, op, vals, core):
    tk = m.get(vals, op.token)
    d = m.device(tk[1])
    if d.busy_until > m.now:
        m.probe("await-blocked")
        m.now = d.busy_until  # discrete-event jump
    else:
        m.probe("await-immediate")
    m.hist.append(("await", d.name))


@handler(accfg.AcceleratorOp)
def _accop(m, op, vals, core):
    return None


def _call(m: AccfgMachine, op, vals, core):
    tag = _tag(op)
    k = core.occurrence(("call", tag))
    m.hist.append(("call", tag, k))
    callee = m.funcs.get(op.callee.string_value()) if isinstance(op, func.CallOp) else None
    if callee is not None and callee.body.blocks:
        # a function defined in this module: what it does to the accelerators is what its body does
        m.probe("local-call")
        yield from m.run_function(op.callee.string_value(), [m.get(vals, a) for a in op.arguments], core)
        return
    if contract_effects(op):
        m.clobber(tag, k)
    for r in op.results:
        raise HarnessError("call with results in accfg family")


handler(func.CallOp, llvm.CallOp)(_call)


@handler(test.TestOp)
def _testop(m: AccfgMachine, op, vals, core):
    tag = _tag(op)
    k = core.occurrence(("opq", tag))
    m.hist.append(("opaque", tag, k, tuple(m.get(vals, o) for o in op.operands)))
    if contract_effects(op):  # only with an explicit accfg.effects = full annotation
        m.clobber(tag, k)
    for i, r in enumerate(op.results):
        vals[r] = 1 + hkey(m.seed, "opq", tag, k, i) % 5


def run(mod, env, args, accs, **kw):
    m = AccfgMachine(mod, env, accs, **kw)
    m.run_single("f", args, Core(0))
    return m


def compare_histories(ref: list, sub: list) -> str | None:
    """C01 / C06 oracle: same events in the same order; at every launch the register snapshot agrees
    on W = the fields the reference had written (or had clobbered) before that launch."""
    for k, (a, b) in enumerate(zip(ref, sub)):
        if a[0] != b[0]:
            return f"event {k}: reference {a[0]} {a[1]!r} vs subject {b[0]} {b[1]!r}"
        if a[0] == "launch":
            if a[1] != b[1]:
                return f"event {k}: launch of {a[1]} vs launch of {b[1]}"
            if a[2] != b[2]:
                return f"event {k}: launch values differ: {a[2]!r} vs {b[2]!r}"
            for f in sorted(a[4]):
                if b[3].get(f) != a[3][f]:
                    return f"event {k}: launch of {a[1]} observes {f}={b[3].get(f)!r}, the reference observed {a[3][f]!r}"
        elif a != b:
            return f"event {k}: reference {a!r} vs subject {b!r}"
    if len(ref) != len(sub):
        longer = ref if len(ref) > len(sub) else sub
        return f"history length: reference {len(ref)} events vs subject {len(sub)} (first extra: {longer[min(len(ref), len(sub))][:2]!r})"
    return None
