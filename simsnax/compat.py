"""Environment shim (DESIGN.md §2.1).

* xDSL in /venv is 0.70.0, the repo pins an older git commit: `irdl_options` lists are turned
  into tuples on the fly (nothing in /repo is changed);
* `minimalloc` (absent) is replaced by a small interval packer;
* `$SNAX_REPO` (default /repo) goes first on sys.path so that checks always load the *current*
  working tree.  Nothing is cached between processes.
"""
from __future__ import annotations

import io
import os
import signal
import sys
import types

REPO = os.environ.get("SNAX_REPO", "/repo")
_installed = False


class PassTimeout(Exception):
    pass


def install():
    global _installed
    if _installed:
        return
    _installed = True
    import xdsl.irdl.operations as _ops

    _orig = _ops.OpDef.from_pyrdl

    def _from_pyrdl(pyrdl_def):
        for parent in pyrdl_def.mro():
            v = parent.__dict__.get("irdl_options")
            if isinstance(v, list):
                setattr(parent, "irdl_options", tuple(v))
        return _orig(pyrdl_def)

    _ops.OpDef.from_pyrdl = staticmethod(_from_pyrdl)
    _install_minimalloc()
    if REPO in sys.path:
        sys.path.remove(REPO)
    sys.path.insert(0, REPO)


# ------------------------------------------------------------------ minimalloc stub

#: packing order used by the stub solver; swarm-varied by C11 (any valid packing is a legal answer)
SOLVER_ORDER = {"mode": "size", "seed": 0}


def _install_minimalloc():
    mm = types.ModuleType("minimalloc")

    class Buffer:
        def __init__(self, id, start_time, end_time, size, alignment=1):
            self.id = id
            self.start_time = start_time
            self.end_time = end_time
            self.size = size
            self.alignment = alignment

        def __repr__(self):
            return f"Buffer({self.id},{self.start_time},{self.end_time},{self.size},{self.alignment})"

    class Problem:
        def __init__(self, buffers, capacity):
            self.buffers = list(buffers)
            self.capacity = capacity

        def solve(self):
            import random

            idx = list(range(len(self.buffers)))
            mode = SOLVER_ORDER["mode"]
            if mode == "size":
                idx.sort(key=lambda i: -self.buffers[i].size)
            elif mode == "start":
                idx.sort(key=lambda i: self.buffers[i].start_time)
            elif mode == "random":
                random.Random(SOLVER_ORDER["seed"]).shuffle(idx)
            placed: list[tuple[int, int, int, int]] = []  # (start, end, off, size)
            out = [0] * len(self.buffers)
            for i in idx:
                b = self.buffers[i]
                al = max(1, b.alignment or 1)
                # closed lifetimes [start_time, end_time] conflict when they intersect
                conflicts = sorted(
                    (o, s) for (st, en, o, s) in placed if not (en < b.start_time or b.end_time < st)
                )
                off = 0
                for o, s in conflicts:
                    if off + b.size <= o:
                        break
                    off = max(off, o + s)
                    if off % al:
                        off += al - off % al
                if off + b.size > self.capacity:
                    raise RuntimeError("minimalloc stub: does not fit")
                out[i] = off
                placed.append((b.start_time, b.end_time, off, b.size))
            return out

    mm.Buffer = Buffer
    mm.Problem = Problem
    sys.modules["minimalloc"] = mm


# ------------------------------------------------------------------ driver helpers

_MAIN = None
_DEVNULL = open(os.devnull, "w")


def main():
    """The repo's own option-less SNAXOptMain (registers dialects, passes, accelerators, memories)."""
    global _MAIN
    if _MAIN is None:
        install()
        from snaxc.tools.snax_opt_main import SNAXOptMain

        _MAIN = SNAXOptMain(args=[])
        # snax-opt does not register the XDMA by default (snaxc does so from the hardware configuration file)
        from snaxc.accelerators.snax_xdma import SNAXXDMAAccelerator

        _MAIN.ctx.register_accelerator("snax_xdma", lambda: SNAXXDMAAccelerator())
    return _MAIN


def config_context(order):
    """The context snaxc builds from a hardware configuration file (tools/config_parser.parse_config, real code): one cluster
    whose cores carry the accelerators named in `order` ("xdma" / "alu"), one core each, plus the dialects.  dacite (the
    library that turns the parsed YAML into the repo's config dataclasses) is not installed: the dataclasses are built directly
    and a pass-through stands in for `dacite.from_dict`."""
    import types

    m = main()
    if "dacite" not in sys.modules:
        d = types.ModuleType("dacite")
        d.from_dict = lambda data_class, data, config=None: data
        dc = types.ModuleType("dacite.config")
        dc.Config = d.Config = type("Config", (), {"__init__": lambda self, **kw: None})
        sys.modules["dacite"], sys.modules["dacite.config"] = d, dc
    from snaxc.tools import configs as C
    from snaxc.tools.config_parser import parse_config

    wrap = {"xdma": lambda: C.SnaxXdmaWrapper(None), "alu": lambda: C.SnaxAluWrapper(None)}
    system = C.SystemConfig(
        memory=C.SnaxMemoryConfig("L3", 0x80000000, 10**9),
        clusters=[C.ClusterConfig(memory=C.SnaxMemoryConfig("L1", 0x10000000, 100000), cores=[C.CoreConfig([wrap[k]()]) for k in order])],
    )
    ctx = parse_config(system)
    for name in m.ctx.registered_dialect_names:
        ctx.register_dialect(name, (lambda n=name: m.ctx.get_dialect(n)))
    return ctx


def parse(src: str, verify: bool = True, bind: dict | None = None):
    """`bind`: further accelerator names of this compilation only (name -> "xdma" | "alu"): the registry belongs to the
    context, one process compiles for differently configured clusters one after the other."""
    from xdsl.parser import Parser

    m = main()
    if bind and "__config__" in bind:
        ctx = config_context(bind["__config__"])
        bind = None
    else:
        ctx = m.ctx.clone()
    for name, kind in sorted((bind or {}).items()):
        if kind == "xdma":
            from snaxc.accelerators.snax_xdma import SNAXXDMAAccelerator

            ctx.register_accelerator(name, lambda: SNAXXDMAAccelerator())
        else:
            from snaxc.accelerators.snax_alu import SNAXAluAccelerator

            ctx.register_accelerator(name, lambda: SNAXAluAccelerator())
    mod = Parser(ctx, src).parse_module()
    if verify:
        mod.verify()
    return ctx, mod


def _alarm(*_a):
    raise PassTimeout("pass timeout")


def run_passes(ctx, mod, spec: str, alarm_s: int = 3, verify: bool = True):
    """Apply a pass pipeline of the *current tree* under a wall-clock alarm (a pass that does not
    terminate is a rejection, not a violation; DESIGN.md §4)."""
    from xdsl.passes import PassPipeline

    m = main()
    # the budget is CPU time of this process (ITIMER_VIRTUAL), not wall-clock time: a loaded machine must not turn a slow pass
    # into a "does not terminate"; a generous wall-clock alarm stays as a backstop against a pass that blocks
    old = signal.signal(signal.SIGVTALRM, _alarm)
    old_wall = signal.signal(signal.SIGALRM, _alarm)
    signal.setitimer(signal.ITIMER_VIRTUAL, alarm_s)
    signal.alarm(alarm_s * 40)
    old_err = sys.stderr
    sys.stderr = _DEVNULL  # some passes print diagnostics about patterns they could not apply
    try:
        PassPipeline.parse_spec(m.available_passes, spec).apply(ctx, mod)
        if verify:
            mod.verify()
    finally:
        signal.setitimer(signal.ITIMER_VIRTUAL, 0)
        signal.alarm(0)
        signal.signal(signal.SIGVTALRM, old)
        signal.signal(signal.SIGALRM, old_wall)
        sys.stderr = old_err
    return mod


def text(mod) -> str:
    from xdsl.printer import Printer

    o = io.StringIO()
    Printer(o).print_op(mod)
    return o.getvalue()


def repo_head() -> str:
    import subprocess

    try:
        h = subprocess.run(["git", "-C", REPO, "rev-parse", "HEAD"], capture_output=True, text=True, timeout=10).stdout.strip()
        d = subprocess.run(["git", "-C", REPO, "status", "--porcelain"], capture_output=True, text=True, timeout=10).stdout.strip()
        return h + ("+dirty" if d else "")
    except Exception:
        return "unknown"
