"""Loop-nest family (DESIGN.md §4, C17).

Statements:
  {"k":"op","tag":n,"args":[ref..]}                          "test.op" on index values / buffers
  {"k":"calc","name":"%vN","op":"addi"|"muli","a":r,"b":r}   pure index arithmetic
  {"k":"alloc","name":"%bN","site":n,"sizes":[ref,ref]}      memref.alloc (dynamic 2-D)
  {"k":"dim","name":"%dN","src":buf,"idx":0|1}               memref.dim
  {"k":"min","name":"%mN","iv":ref,"c":8,"t":20}             affine.min (c, -iv + t)
  {"k":"subview","name":"%sN","src":buf,"off":[r,r],"size":[r,r]}
  {"k":"for","iv":"%iN","lb":r,"ub":r,"step":r,"body":[..]}  bounds: constant names (%cK) or arguments
"""
from __future__ import annotations

TA = 'memref<?x?xi8, "L3">'
TB = 'memref<?x?xi8, "L1">'
TS = 'memref<?x?xi8, strided<[?, 1], offset: ?>, "L3">'
TR = 'memref<?xi8, strided<[1], offset: ?>, "L3">'
CONSTS = [0, 1, 2, 3, 4, 5, 7, 8]


def default_profile(rng):
    fam = rng.choice(["canon", "canon", "reuse", "both"])
    return {
        "family": fam,
        "max_depth": rng.choice([1, 2, 2, 3]),
        "const_bounds": rng.random() < (0.8 if fam != "reuse" else 0.3),
        "perfect": rng.random() < 0.5,  # perfect nests only (outside the MergeForLoops known finding)
        "allocs": fam in ("reuse", "both"),
        "rank_reducing": rng.random() < 0.4,
        "ifs": rng.random() < 0.3,
        "mixed_lb": rng.choice([0, 0, 0.3]),
        "deallocs": rng.choice([0, 0, 0.5]),
        "rotation": rng.choice([0, 0, 0.15]),
        "neg_ub": rng.choice([0, 0, 0.3]),
        "counter": rng.random() < 0.15,
    }


class LoopGen:
    def __init__(self, rng, p):
        self.r, self.p = rng, p
        self.n = 0
        self.tag = 0

    def fresh(self, p):
        self.n += 1
        return f"%{p}{self.n}"

    def idx_value(self, out, scope, ivs):
        """an index value; may emit defining statements into `out`"""
        r = self.r
        kinds = ["outer", "const"] + (["dim", "dim"] if self.p["allocs"] else []) + (["iv", "min", "calc"] if ivs else [])
        k = r.choice(kinds)
        enclosing = [x for x in scope if x.startswith(("%d", "%v"))]  # index values computed in an enclosing loop body
        if enclosing and r.random() < 0.25:
            return r.choice(enclosing)
        if k == "outer":
            return r.choice(scope)
        if k == "const":
            return f"%c{r.choice([1, 2, 4, 8])}"
        if k == "dim":
            nm = self.fresh("d")
            out.append({"k": "dim", "name": nm, "src": "%arg0", "idx": r.choice([0, 1])})
            return nm
        if k == "iv":
            return r.choice(ivs)
        if k == "calc":
            nm = self.fresh("v")
            out.append({"k": "calc", "name": nm, "op": r.choice(["addi", "muli"]), "a": r.choice(ivs), "b": r.choice(scope + ivs)})
            return nm
        nm = self.fresh("m")
        out.append({"k": "min", "name": nm, "iv": r.choice(ivs), "c": 8, "t": r.choice([12, 20])})
        return nm

    def bound(self, ivs=()):
        r = self.r
        if self.p["const_bounds"]:
            lb = r.choice([0, 0, 0, 1, 2])
            step = r.choice([1, 1, 2, 3])
            ub = r.choice([0, 1, 2, 3, 4, 5, 7, 8])
            if self.p.get("neg_ub") and r.random() < self.p["neg_ub"]:
                ub = r.choice(["m2", "m3"])  # a negative constant upper bound: no iteration
            if self.p.get("mixed_lb") and r.random() < self.p["mixed_lb"]:
                # constant upper bound and step, but a lower bound that is not a constant: an argument, or the induction
                # variable of an enclosing loop (triangular nest)
                return r.choice(list(ivs) + ["%l0"]), f"%c{ub}", f"%c{step}"
            return f"%c{lb}", f"%c{ub}", f"%c{step}"
        return r.choice(["%c0", "%c0", "%l0"]), r.choice(["%n0", "%n1"]), r.choice(["%c1", "%c1", "%c2", "%t0"])

    def body(self, depth, scope, ivs, bufs):
        r, p = self.r, self.p
        out = []
        if p["perfect"] and depth < p["max_depth"] and r.random() < 0.7:
            out.append(self.loop(depth, scope, ivs, bufs))
            return out
        for _ in range(r.randint(1, 3)):
            if p.get("rotation") and depth < p["max_depth"] and not p["perfect"] and r.random() < p["rotation"]:
                # buffer rotation: the loop carries the buffer of the previous iteration, allocates a new one, frees the old
                self.tag += 4
                lb, ub, st = self.bound(ivs)
                node = {"k": "rot", "iv": self.fresh("i"), "lb": lb, "ub": ub, "step": st, "tag": self.tag, "n": self.fresh("r")[2:]}
                via = r.choice(["plain", "plain", "if", "cast", "select", "keep"])
                if r.random() < 0.3:
                    node["dimsize"] = True  # the new buffer is as large as the previous one (memref.dim of the loop-carried buffer)
                if via != "plain":
                    # "if": a new buffer is only taken in some iterations (the conditional yields the new or the previous one);
                    # "cast": the new buffer is handed on through a memref.cast
                    node["via"] = via
                    node["b"] = r.choice(["%c1", "%c2", "%c4"])
                out.append(node)
                continue
            k = r.choices(["op", "for", "alloc", "subview", "if", "cnt"], [3, 2 if depth < p["max_depth"] else 0, 2 if p["allocs"] else 0, 1 if p["allocs"] else 0, (1 if p.get("ifs") and depth < p["max_depth"] and not p["perfect"] else 0), 2 if p.get("counter") else 0])[0]
            if k == "if":
                # a conditional region around ops and loops: a loop inside it is not directly nested in the outer loop
                node = {"k": "if", "a": r.choice(ivs), "b": r.choice(["%c1", "%c2", "%c4"]), "then": self.body(depth + 1, scope, ivs, bufs), "else": []}
                if r.random() < 0.5:
                    self.tag += 1
                    node["else"] = [{"k": "op", "tag": self.tag, "args": [r.choice(ivs)]}]
                out.append(node)
            elif k == "cnt":
                # a one-element counter buffer (allocated in front of the loops): incremented through a view of it,
                # read directly, the value read goes to a tagged op
                if r.random() < 0.5:
                    out.append({"k": "cnt_inc", "via": r.choice(["%cntv", "%cntv", "%cnt"])})
                else:
                    nm = self.fresh("q")
                    self.tag += 1
                    out.append({"k": "cnt_read", "name": nm, "tag": self.tag})
            elif k == "op":
                self.tag += 1
                args = [self.idx_value(out, scope, ivs) for _ in range(r.randint(1, 2))]
                out.append({"k": "op", "tag": self.tag, "args": args})
            elif k == "for":
                if p["perfect"] and out:
                    continue
                # index values defined earlier in this body dominate the inner loop and may be used inside it
                visible = [x["name"] for x in out if x["k"] in ("dim", "calc") and x.get("srcty", TA) == TA]
                out.append(self.loop(depth, scope + visible, ivs, bufs))
                if p["perfect"]:
                    break
            elif k == "alloc":
                nm = self.fresh("b")
                self.tag += 1
                site = self.tag
                sizes = [self.idx_value(out, scope, ivs), self.idx_value(out, scope, ivs)]
                out.append({"k": "alloc", "name": nm, "site": site, "sizes": sizes})
                self.tag += 1
                out.append({"k": "op", "tag": self.tag, "args": [nm], "bufarg": True})
                if p.get("deallocs") and r.random() < p["deallocs"]:
                    how = r.choice(["plain", "plain", "branches", "cast"])
                    if how == "branches" and ivs:
                        # freed in both branches of a conditional
                        out.append({"k": "if", "a": r.choice(ivs), "b": r.choice(["%c1", "%c2"]), "then": [{"k": "dealloc", "buf": nm}], "else": [{"k": "dealloc", "buf": nm}]})
                    elif how == "cast":
                        out.append({"k": "dealloc", "buf": nm, "cast": r.choice([1, 1, 2, 3])})  # freed through a (chain of) memref.cast of it
                        if r.random() < 0.3:
                            out[-1]["msc"] = True  # ... the last link is a memref.memory_space_cast
                    else:
                        out.append({"k": "dealloc", "buf": nm})  # the buffer is freed again in the same body
                bufs = bufs + [nm]
            else:
                nm = self.fresh("s")
                size = [self.idx_value(out, scope, ivs) if r.random() < 0.6 else None for _ in range(2)]
                off = [r.choice(ivs + ["%c0", None, None]) for _ in range(2)]  # None = static offset 0
                for x in size:
                    # a size that is a memref.dim may have a further user that keeps it inside the loop
                    if x is not None and x.startswith("%d") and r.random() < 0.4:
                        self.tag += 1
                        out.append({"k": "op", "tag": self.tag, "args": [x]})
                rr = p.get("rank_reducing") and r.random() < 0.35
                sv = {"k": "subview", "name": nm, "src": "%arg0", "off": off, "size": size}
                if rr:
                    sv["rr"] = True  # rank-reducing: sizes [1, n] -> a 1-D view whose dim 0 is n
                out.append(sv)
                ty = rr_type(sv) if rr else TS
                if r.random() < 0.5:
                    self.tag += 1
                    out.append({"k": "op", "tag": self.tag, "args": [nm], "bufarg": "view", "ty": ty})
                d = self.fresh("d")
                out.append({"k": "dim", "name": d, "src": nm, "idx": 0 if rr else r.choice([0, 1]), "srcty": ty})
                b = self.fresh("b")
                self.tag += 1
                out.append({"k": "alloc", "name": b, "site": self.tag, "sizes": [d, r.choice(scope)]})
                self.tag += 1
                out.append({"k": "op", "tag": self.tag, "args": [b], "bufarg": True})
        return out

    def loop(self, depth, scope, ivs, bufs):
        iv = self.fresh("i")
        lb, ub, st = self.bound(ivs)
        node = {"k": "for", "iv": iv, "lb": lb, "ub": ub, "step": st}
        node["body"] = self.body(depth + 1, scope, ivs + [iv], bufs)
        return node

    def program(self):
        scope = ["%n0", "%n1", "%c2"]
        body = [self.loop(0, scope, [], [])]
        if self.r.random() < 0.3:
            body.append(self.loop(0, scope, [], []))
        return {"body": body, "counter": bool(self.p.get("counter"))}


TC = 'memref<1xindex, "L1">'
TCV = 'memref<1xindex, strided<[1], offset: 0>, "L1">'


def emit(ast) -> str:
    L = []
    cnt = [0]

    def e(ind, s):
        L.append("  " * ind + s)

    def stmts(ind, body):
        for s in body:
            k = s["k"]
            if k == "op":
                tys = ", ".join((s.get("ty", TS) if s.get("bufarg") == "view" else TB) if s.get("bufarg") else "index" for _ in s["args"])
                e(ind, f'"test.op"({", ".join(s["args"])}) {{vtag = {s["tag"]} : i64}} : ({tys}) -> ()')
            elif k == "calc":
                e(ind, f'{s["name"]} = arith.{s["op"]} {s["a"]}, {s["b"]} : index')
            elif k == "alloc":
                e(ind, f'{s["name"]} = memref.alloc({s["sizes"][0]}, {s["sizes"][1]}) {{alignment = 64 : i64, vsite = {s["site"]} : i64}} : {TB}')
            elif k == "rot":
                n_, t_ = s["n"], s["tag"]
                rows = "%c2"
                e(ind, f'%ri{n_} = memref.alloc(%c2, %c2) {{alignment = 64 : i64, vsite = {t_} : i64}} : {TB}')
                e(ind, f'%rr{n_} = scf.for {s["iv"]} = {s["lb"]} to {s["ub"]} step {s["step"]} iter_args(%rp{n_} = %ri{n_}) -> ({TB}) {{')
                if s.get("dimsize"):
                    rows = f"%rd{n_}"
                    e(ind + 1, f"{rows} = memref.dim %rp{n_}, %c0 : {TB}")
                if s.get("via") == "if":
                    e(ind + 1, f'%rc{n_} = arith.cmpi slt, {s["iv"]}, {s["b"]} : index')
                    e(ind + 1, f"%rn{n_} = scf.if %rc{n_} -> ({TB}) {{")
                    e(ind + 2, f'%ra{n_} = memref.alloc({rows}, %c2) {{alignment = 64 : i64, vsite = {t_ - 1} : i64}} : {TB}')
                    e(ind + 2, f'"test.op"(%rp{n_}, %ra{n_}) {{vtag = {t_ - 2} : i64}} : ({TB}, {TB}) -> ()')
                    e(ind + 2, f"memref.dealloc %rp{n_} : {TB}")
                    e(ind + 2, f"scf.yield %ra{n_} : {TB}")
                    e(ind + 1, "} else {")
                    e(ind + 2, f"scf.yield %rp{n_} : {TB}")
                    e(ind + 1, "}")
                    e(ind + 1, f"scf.yield %rn{n_} : {TB}")
                elif s.get("via") == "select":
                    # ping-pong through arith.select: a new buffer is allocated every time, either it or the previous one is kept
                    e(ind + 1, f'%ra{n_} = memref.alloc({rows}, %c2) {{alignment = 64 : i64, vsite = {t_ - 1} : i64}} : {TB}')
                    e(ind + 1, f'%rc{n_} = arith.cmpi slt, {s["iv"]}, {s["b"]} : index')
                    e(ind + 1, f"%rn{n_} = arith.select %rc{n_}, %ra{n_}, %rp{n_} : {TB}")
                    e(ind + 1, f"%ro{n_} = arith.select %rc{n_}, %rp{n_}, %ra{n_} : {TB}")
                    e(ind + 1, f'"test.op"(%rp{n_}, %rn{n_}) {{vtag = {t_ - 2} : i64}} : ({TB}, {TB}) -> ()')
                    e(ind + 1, f"memref.dealloc %ro{n_} : {TB}")
                    e(ind + 1, f"scf.yield %rn{n_} : {TB}")
                elif s.get("via") == "keep":
                    # keep the better candidate: a candidate buffer is allocated every time; a conditional frees the previous one and
                    # hands the candidate on, or frees the candidate and hands the previous one on
                    e(ind + 1, f'%ra{n_} = memref.alloc({rows}, %c2) {{alignment = 64 : i64, vsite = {t_ - 1} : i64}} : {TB}')
                    e(ind + 1, f'%rc{n_} = arith.cmpi slt, {s["iv"]}, {s["b"]} : index')
                    e(ind + 1, f'"test.op"(%rp{n_}, %ra{n_}) {{vtag = {t_ - 2} : i64}} : ({TB}, {TB}) -> ()')
                    e(ind + 1, f"%rn{n_} = scf.if %rc{n_} -> ({TB}) {{")
                    e(ind + 2, f"memref.dealloc %rp{n_} : {TB}")
                    e(ind + 2, f"scf.yield %ra{n_} : {TB}")
                    e(ind + 1, "} else {")
                    e(ind + 2, f"memref.dealloc %ra{n_} : {TB}")
                    e(ind + 2, f"scf.yield %rp{n_} : {TB}")
                    e(ind + 1, "}")
                    e(ind + 1, f"scf.yield %rn{n_} : {TB}")
                elif s.get("via") == "cast":
                    e(ind + 1, f'%ra{n_} = memref.alloc({rows}, %c2) {{alignment = 64 : i64, vsite = {t_ - 1} : i64}} : {TB}')
                    e(ind + 1, f'%rn{n_} = "memref.cast"(%ra{n_}) : ({TB}) -> {TB}')
                    e(ind + 1, f'"test.op"(%rp{n_}, %rn{n_}) {{vtag = {t_ - 2} : i64}} : ({TB}, {TB}) -> ()')
                    e(ind + 1, f"memref.dealloc %rp{n_} : {TB}")
                    e(ind + 1, f"scf.yield %rn{n_} : {TB}")
                else:
                    e(ind + 1, f'%rn{n_} = memref.alloc({rows}, %c2) {{alignment = 64 : i64, vsite = {t_ - 1} : i64}} : {TB}')
                    e(ind + 1, f'"test.op"(%rp{n_}, %rn{n_}) {{vtag = {t_ - 2} : i64}} : ({TB}, {TB}) -> ()')
                    e(ind + 1, f"memref.dealloc %rp{n_} : {TB}")
                    e(ind + 1, f"scf.yield %rn{n_} : {TB}")
                e(ind, "}")
                e(ind, f'"test.op"(%rr{n_}) {{vtag = {t_ - 3} : i64}} : ({TB}) -> ()')
                e(ind, f"memref.dealloc %rr{n_} : {TB}")
            elif k == "dealloc" and s.get("cast"):
                prev = s["buf"]
                for _ in range(int(s["cast"])):
                    cnt[0] += 1
                    e(ind, f'%dc{cnt[0]} = "memref.cast"({prev}) : ({TB}) -> {TB}')
                    prev = f"%dc{cnt[0]}"
                if s.get("msc"):
                    cnt[0] += 1
                    tb3 = TB.replace('"L1"', '"L3"')
                    e(ind, f'%dc{cnt[0]} = "memref.memory_space_cast"({prev}) : ({TB}) -> {tb3}')
                    e(ind, f"memref.dealloc %dc{cnt[0]} : {tb3}")
                else:
                    e(ind, f"memref.dealloc {prev} : {TB}")
            elif k == "dealloc":
                e(ind, f'memref.dealloc {s["buf"]} : {TB}')
            elif k == "dim":
                e(ind, f'{s["name"]} = memref.dim {s["src"]}, %c{s["idx"]} : {s.get("srcty", TA)}')
            elif k == "min":
                e(ind, f'{s["name"]} = affine.min affine_map<(d0) -> ({s["c"]}, -d0 + {s["t"]})>({s["iv"]})')
            elif k == "subview":
                sz = [x if x is not None else "4" for x in s["size"]]
                of = [x if x is not None else "0" for x in s["off"]]
                if s.get("rr"):
                    e(ind, f'{s["name"]} = memref.subview {s["src"]}[{of[0]}, {of[1]}] [1, {sz[1]}] [1, 1] : {TA} to {rr_type(s)}')
                else:
                    e(ind, f'{s["name"]} = memref.subview {s["src"]}[{of[0]}, {of[1]}] [{sz[0]}, {sz[1]}] [1, 1] : {TA} to {TS}')
            elif k == "for":
                e(ind, f'scf.for {s["iv"]} = {s["lb"]} to {s["ub"]} step {s["step"]} {{')
                stmts(ind + 1, s["body"])
                e(ind, "}")
            elif k == "if":
                cnt[0] += 1
                e(ind, f'%cond{cnt[0]} = arith.cmpi slt, {s["a"]}, {s["b"]} : index')
                e(ind, f"scf.if %cond{cnt[0]} {{")
                stmts(ind + 1, s["then"])
                if s["else"]:
                    e(ind, "} else {")
                    stmts(ind + 1, s["else"])
                e(ind, "}")
            elif k == "cnt_inc":
                cnt[0] += 1
                ty = TCV if s["via"] == "%cntv" else TC
                e(ind, f'%old{cnt[0]} = memref.load {s["via"]}[%c0] : {ty}')
                e(ind, f"%new{cnt[0]} = arith.addi %old{cnt[0]}, %c1 : index")
                e(ind, f'memref.store %new{cnt[0]}, {s["via"]}[%c0] : {ty}')
            elif k == "cnt_read":
                e(ind, f'{s["name"]} = memref.load %cnt[%c0] : {TC}')
                e(ind, f'"test.op"({s["name"]}) {{vtag = {s["tag"]} : i64}} : (index) -> ()')
            else:
                raise ValueError(k)

    e(0, "builtin.module {")
    e(1, f"func.func @f(%arg0 : {TA}, %n0 : index, %n1 : index, %l0 : index, %t0 : index) {{")
    for c in CONSTS:
        e(2, f"%c{c} = arith.constant {c} : index")
    e(2, "%cm2 = arith.constant -2 : index")
    e(2, "%cm3 = arith.constant -3 : index")
    if ast.get("counter"):
        e(2, f"%cnt = memref.alloc() {{vsite = 900 : i64}} : {TC}")
        e(2, f"%cntv = memref.subview %cnt[0][1][1] : {TC} to {TCV}")
        e(2, f"memref.store %c7, %cnt[%c0] : {TC}")
    stmts(2, ast["body"])
    e(2, "func.return")
    e(1, "}")
    e(0, "}")
    return "\n".join(L)


def gen_env(rng):
    return {"dims": [rng.choice([3, 5, 16]), rng.choice([2, 7])], "n": [rng.choice([0, 1, 2, 3, 5, -1, -4, -9]), rng.choice([0, 1, 2, 4, -2, -6])], "l": rng.choice([0, 1, 2]), "t": rng.choice([1, 2, 3])}


def shrink_body(body):
    for i, s in enumerate(body):
        yield body[:i] + body[i + 1 :]
    for i, s in enumerate(body):
        if s["k"] == "for":
            for nb in shrink_body(s["body"]):
                yield body[:i] + [dict(s, body=nb)] + body[i + 1 :]
            for fld, simple in (("lb", "%c0"), ("step", "%c1")):
                if s[fld] != simple and s[fld].startswith("%c"):
                    yield body[:i] + [dict(s, **{fld: simple})] + body[i + 1 :]
            if s["ub"].startswith("%c") and s["ub"] not in ("%c1", "%c2", "%c3"):
                for smaller in ("%c3", "%c2"):
                    yield body[:i] + [dict(s, ub=smaller)] + body[i + 1 :]
        if s["k"] == "op" and len(s["args"]) > 1:
            yield body[:i] + [dict(s, args=s["args"][:1])] + body[i + 1 :]
        if s["k"] == "if":
            yield body[:i] + s["then"] + body[i + 1 :]
            for key in ("then", "else"):
                for nb in shrink_body(s[key]):
                    yield body[:i] + [dict(s, **{key: nb})] + body[i + 1 :]


def has_imperfect_const_nest(body):
    """Trigger region of known finding KF-C17-1: a constant-bound lb=0 loop directly containing another
    constant-bound lb=0 loop *and* anything else with an effect (MergeForLoops has no perfect-nest test)."""

    def const0(s):
        return s["lb"] == "%c0" and s["ub"].startswith("%c") and s["step"].startswith("%c")

    for s in body:
        if s["k"] == "if" and (has_imperfect_const_nest(s["then"]) or has_imperfect_const_nest(s["else"])):
            return True
        if s["k"] != "for":
            continue
        inner = [c for c in s["body"] if c["k"] in ("for", "rot")]
        # (a rotation loop comes with an allocation in front of it and a use behind it: never a perfect nest)
        others = [c for c in s["body"] if c["k"] in ("op", "alloc", "cnt_inc", "cnt_read", "if", "rot")]
        if const0(s) and any(const0(c) for c in inner) and (others or len(inner) > 1):
            return True
        if has_imperfect_const_nest(s["body"]):
            return True
    return False


def rr_type(sv):
    """result type of a rank-reducing subview: static when its size is"""
    return TR if sv["size"][1] is not None else TR.replace("?xi8", "4xi8")


def has_min_sized_subview_dim_alloc(body, mins=frozenset(), views=None, dims=None):
    """Trigger region of known finding KF-C17-2: alloc(.. dim(subview[.. affine.min ..]) ..)."""
    views = dict(views or {})
    dims = set(dims or ())
    mins = set(mins)
    for s in body:
        k = s["k"]
        if k == "min":
            mins.add(s["name"])
        elif k == "subview":
            views[s["name"]] = [x in mins for x in (s["size"][1:] if s.get("rr") else s["size"])]
        elif k == "dim" and s["src"] in views and views[s["src"]][s["idx"]]:
            dims.add(s["name"])
        elif k == "alloc" and any(x in dims for x in s["sizes"]):
            return True
        elif k == "for" and has_min_sized_subview_dim_alloc(s["body"], mins, views, dims):
            return True
        elif k == "if" and (has_min_sized_subview_dim_alloc(s["then"], mins, views, dims) or has_min_sized_subview_dim_alloc(s["else"], mins, views, dims)):
            return True
    return False
