"""accfg program family (DESIGN.md §4): full-field setup + launch + await triples composed with
scf.for / scf.if / calls (three effect kinds) / opaque effect ops / pure arithmetic.

The AST is plain JSON (lists / dicts / strings) so that it can be stored in a replay file and
shrunk structurally; emit() turns it into MLIR text which is parsed by the repo's own context.

Statement kinds
  {"k":"sl",   "acc":a, "vals":[ref..], "gap":[stmt..]}       setup(all fields) ; launch ; gap ; await
  {"k":"call", "eff":"none"|"full"|"unannotated", "tag":n, "callee":"func"|"llvm"}
  {"k":"opq",  "tag":n, "args":[ref..]}                       "test.op" with side effects (never clobbers)
  {"k":"pure", "op":o, "a":ref, "b":ref, "name":"%vN"}        i32 arithmetic
  {"k":"for",  "iv":"%iN", "lb":ref, "ub":ref, "step":ref, "body":[..], "carry":[[arg, init, yielded]..], "res":[names]}
  {"k":"if",   "cond":ref, "then":[..], "else":[..]}
"""
from __future__ import annotations

FIELD_NAMES = ["A", "B", "C", "D", "E", "F"]
INDEX_ARGS = ("%n0", "%n1", "%n2", "%l0", "%t0")
PURE_OPS = ["addi", "muli", "subi", "xori"]


def default_profile(rng, tier="quick"):
    """Swarm profile: which statement kinds are on, sizes, shapes."""
    p = {
        "n_acc": rng.choice([1, 1, 1, 2]),
        "n_fields": [rng.choice([2, 3, 3, 4, 6]) for _ in range(2)],
        "max_depth": rng.choice([1, 2, 2, 3]),
        "top_stmts": rng.randint(2, 6),
        "w_sl": rng.choice([4, 5, 6]),
        "w_call": rng.choice([0, 1, 2, 3]),
        "w_opq": rng.choice([0, 1, 2]),
        "w_pure": rng.choice([0, 1, 2, 3]),
        "w_for": rng.choice([1, 2, 3]),
        "w_if": rng.choice([0, 1, 2, 3]),
        "carry": rng.random() < 0.35,
        "gap": rng.random() < 0.3,
        "llvm_call": rng.random() < 0.25,
        "const_bounds": rng.random() < 0.3,
        "lb_step": rng.random() < 0.5,  # lb != 0 / step != 1 allowed
        "max_stmts": 24,
        "repeat_bias": rng.choice([0, 0, 0.3, 0.6]),
        "nest_passthrough": rng.choice([0, 0, 0.4]),
        "if_head": rng.choice([0, 0, 0.4]),
        "if_value": rng.choice([0, 0, 0.4]),
    }
    if tier == "thorough" and rng.random() < 0.3:
        # deeper / larger programs in the thorough tier
        p["max_depth"] = rng.choice([3, 4])
        p["top_stmts"] = rng.randint(5, 9)
        p["max_stmts"] = 40
    return p


#: dimensions added on top of the classic program family (nested for / if / calls / arithmetic); each is drawn per case
EXOTIC = ("annotated_ifs", "const_conds", "launch_perm", "partial", "local_callee", "switches", "multiblock", "while_loops", "state_loops", "head_launch", "stale_links", "memory",
          "next_iv", "index_vals", "relaunch", "pure_loop")


def classic(rng, prof, p=0.3):
    """Swarm master switch: in a share of the cases every added dimension is off, so that the classic family (where most of the
    structural defects of the passes live) keeps its share of the budget however many dimensions are added."""
    if rng.random() < p:
        for k in EXOTIC:
            if k in prof:
                prof[k] = 0
    return prof


class AccfgGen:
    def __init__(self, rng, profile):
        self.r = rng
        self.p = profile
        self.n = 0
        self.tag = 0
        self.count = 0
        self.history: dict = {}

    def fresh(self, p):
        self.n += 1
        return f"%{p}{self.n}"

    def pick(self, scope):
        # bias towards recently defined values (loop results, pure chains) when the profile asks for it
        if self.p.get("recent_bias") and len(scope) > 3 and self.r.random() < self.p["recent_bias"]:
            return self.r.choice(scope[-2:])
        return self.r.choice(scope)

    def stmts(self, k, scope, depth, inloop):
        out = []
        for _ in range(k):
            if self.count >= self.p["max_stmts"]:
                break
            out.append(self.stmt(scope, depth, inloop))
        return out

    def stmt(self, scope, depth, inloop):
        r, p = self.r, self.p
        deep = depth < p["max_depth"]
        kinds = ["sl", "call", "opq", "pure", "for", "if"]
        w = [p["w_sl"], p["w_call"], p["w_opq"], p["w_pure"], p["w_for"] if deep else 0, p["w_if"] if deep else 0]
        k = r.choices(kinds, w)[0]
        self.count += 1
        if k == "sl":
            return self.stmt_sl(scope)
        return self.stmt_other(k, scope, depth, inloop)

    def stmt_sl(self, scope):
        r, p = self.r, self.p
        if True:
            a = r.randrange(p["n_acc"])
            st = {"k": "sl", "acc": a, "vals": [self.pick(scope) for _ in range(p["n_fields"][a])], "gap": []}
            if p.get("index_vals"):
                # some fields are configured with index-typed values (several of them arguments of the same block)
                st["vals"] = [r.choice(INDEX_ARGS) if r.random() < p["index_vals"] else v for v in st["vals"]]
            prev = self.history.get(a)
            if prev and p.get("repeat_bias") and r.random() < p["repeat_bias"]:
                # the same configuration again (possibly with one field changed): where deduplication has most to remove.
                # Values that are not visible here (defined in a sibling region) are replaced by fresh picks.
                vals = [v if v in scope else self.pick(scope) for v in r.choice(prev)]
                if r.random() < 0.5:
                    vals[r.randrange(len(vals))] = self.pick(scope)
                st["vals"] = vals
            self.history.setdefault(a, []).append(list(st["vals"]))
            if p.get("partial") and r.random() < p["partial"]:
                # a setup that only writes some of the fields (the others keep what they hold); possibly none at all
                st["omit"] = sorted(r.sample(range(len(st["vals"])), r.randint(1, len(st["vals"]))))
            if p.get("n_launch"):
                st["lvals"] = [r.choice(p["launch_pool"]) for _ in range(p["n_launch"][a])]
                if p.get("launch_perm") and p["n_launch"][a] >= 2 and r.random() < p["launch_perm"]:
                    # the launch names its registers in another order than the accelerator declares them, or only some of them
                    st["lperm"] = r.sample(range(p["n_launch"][a]), r.randint(1, p["n_launch"][a]))
            if p.get("prethread") and r.random() < p["prethread"]:
                # "stale": the link names an older state of the accelerator in this block although other setups or calls
                # came in between (IR that was threaded before something was inserted): tracing has to replace or drop it
                st["link"] = "stale" if p.get("stale_links") and r.random() < p["stale_links"] else True
            if p.get("relaunch") and r.random() < p["relaunch"]:
                # launch the same configuration again, directly or nested in a region without any setup
                st["after"] = {"kind": r.choice(["plain", "if", "for"]), "cond": r.choice(["%b0", "%b1", "%b2"]), "ub": r.choice(["%n0", "%n1", "%c2"]), "n": r.randint(1, 2)}
                if st["after"]["kind"] != "plain" and r.random() < 0.3:
                    st["nolaunch"] = True  # the configuration is only launched from inside the region, not next to its setup
            if p["gap"] and r.random() < 0.4:
                for _ in range(r.randint(1, 2)):
                    g = r.choice(["pure", "opq", "call"])
                    st["gap"].append(self.simple(g, scope))
            return st

    def stmt_other(self, k, scope, depth, inloop):
        r, p = self.r, self.p
        if k in ("call", "opq", "pure"):
            return self.simple(k, scope)
        if k == "for":
            iv = self.fresh("i")
            ic = self.fresh("ic")
            node = {"k": "for", "iv": iv, "ic": ic, "body": [], "carry": [], "res": []}
            if p["const_bounds"] and r.random() < 0.5:
                node["lb"], node["ub"], node["step"] = r.choice([("%c0", "%c1"), ("%c0", "%c2"), ("%c0", "%c3"), ("%c0", "%c0"), ("%c1", "%c1"), ("%c1", "%c3"), ("%c2", "%c1")]) + (r.choice(["%c1", "%c1", "%c2", "%c2", "%c3"]),)  # (also ranges shorter than one step: exactly one trip)
            else:
                node["lb"] = r.choice(["%c0", "%c0", "%l0", "%c1"]) if p["lb_step"] else "%c0"
                node["ub"] = r.choice(["%n0", "%n1", "%n2"])
                node["step"] = r.choice(["%c1", "%c1", "%c2", "%t0"]) if p["lb_step"] else "%c1"
            inner = scope + [ic]
            if p.get("pure_loop") and r.random() < p["pure_loop"]:
                # a side-effect free loop computing a loop-carried value from values of the enclosing scope:
                # its result can feed a setup, the whole scf.for is then part of the setup's input chain
                arg = self.fresh("lc")
                node["carry"].append([arg, r.choice(scope), None])
                inner = inner + [arg]
                node["body"] = [self.simple("pure", inner, mem=False) for _ in range(r.randint(1, 2))]
                node["carry"][0][2] = node["body"][-1]["name"]
                res = self.fresh("fr")
                node["res"].append(res)
                scope.append(res)
                return node
            if p["carry"] and r.random() < 0.6:
                for _ in range(r.choice([1, 1, 2, 3])):
                    arg = self.fresh("lc")
                    node["carry"].append([arg, r.choice(scope), None])
                    inner = inner + [arg]
            head = []
            at_head = list(inner)  # what is visible at the head of the body
            if p.get("if_head") and depth + 1 <= p["max_depth"] and r.random() < p["if_head"]:
                # the loop body starts with a conditional (e.g. a conditional re-launch) directly followed by a launch
                self.count += 2
                head = [self.if_node(inner, depth + 1, True), self.stmt_sl(inner)]
            self.loops = getattr(self, "loops", []) + [(iv, node["step"])]
            node["body"] = head + self.stmts(r.randint(1, 3), inner, depth + 1, True)
            self.loops = self.loops[:-1]
            if p.get("next_iv") and r.random() < p["next_iv"]:
                # a guarded use of the next iteration's induction variable (prefetch of the next tile) somewhere in the body
                v = self.fresh("nx")
                self.count += 2
                sl = self.stmt_sl(at_head + [v])
                sl["vals"][r.randrange(len(sl["vals"]))] = v
                guard = {"k": "if", "cond": r.choice(["%b0", "%b1", "%b2"]), "then": [{"k": "nextiv", "name": v, "iv": iv, "step": node["step"]}, sl], "else": []}
                node["body"].insert(r.randint(0, len(node["body"])), guard)
            if p.get("state_loops") and not node["carry"] and r.random() < p["state_loops"]:
                node["carry_state"] = r.randrange(p["n_acc"])  # emitted as a loop that already carries that accelerator's state, if its body is simple enough
                if p.get("stale_links") and r.random() < p["stale_links"]:
                    node["stale_yield"] = r.randint(1, 2)  # the last setups of the body were inserted after the threading: unlinked, not yielded
                if p.get("head_launch") and r.random() < p["head_launch"]:
                    # the body first launches the configuration it was entered with (software-pipelined form), possibly guarded
                    node["head_launch"] = r.choice([True, "if"])
            elif p.get("while_loops") and not node["carry"] and r.random() < p["while_loops"]:
                node["as_while"] = True  # the same counted loop written as scf.while (a region op state tracing does not know)
            elif p.get("annotated_ifs") and r.random() < p["annotated_ifs"] * 0.5:
                self.tag += 1
                node["eff_tag"] = self.tag  # the loop itself carries accfg.effects = full
            for c in node["carry"]:
                # yield something computed in the body (or the argument itself / an outer value)
                c[2] = r.choice(inner[-4:] + [c[0]])
                res = self.fresh("fr")
                node["res"].append(res)
                scope.append(res)
            return node
        # if
        node = self.if_node(scope, depth, inloop)
        if p.get("switches") and r.random() < p["switches"]:
            # the same two-way branch written as scf.index_switch (case 0 / default): a multi-region op tracing does not know
            node["k"] = "sw"
            node["sel"] = r.choice(["%n0", "%n1", "%n2"])
            node.pop("cond")
            return node
        if p.get("if_value") and r.random() < p["if_value"]:
            # the conditional also returns a value (one of two values visible in front of it); it can feed later setups
            name = self.fresh("fv")
            node["res"] = [name, r.choice(scope), r.choice(scope)]
            scope.append(name)
        return node

    def if_node(self, scope, depth, inloop):
        r, p = self.r, self.p
        node = {"k": "if", "cond": r.choice(["%b0", "%b1", "%b2"] + (["%ctrue", "%cfalse"] if p.get("const_conds") else []))}
        node["then"] = self.stmts(r.randint(1, 2), list(scope), depth + 1, inloop)
        if p.get("annotated_ifs") and r.random() < p["annotated_ifs"]:
            self.tag += 1
            node["eff_tag"] = self.tag  # the conditional itself carries accfg.effects = full (e.g. it contains inline assembly)
        if p.get("nest_passthrough") and depth + 1 < p["max_depth"] + 1 and r.random() < p["nest_passthrough"]:
            # the else path is itself conditional with an empty (pass-through) branch: the state after the if is the
            # state before it on one path, a new one on the others
            inner = {"k": "if", "cond": r.choice(["%b0", "%b1", "%b2"]), "then": self.stmts(1, list(scope), depth + 2, inloop), "else": []}
            node["else"] = [inner]
        else:
            node["else"] = self.stmts(r.randint(0, 2), list(scope), depth + 1, inloop)
        return node

    def simple(self, k, scope, mem=True):
        r, p = self.r, self.p
        if k == "call" and p.get("local_callee") and r.random() < p["local_callee"]:
            # a call to a function that is defined in the module and sets up (and launches) one of the accelerators itself
            self.tag += 1
            a = r.randrange(p["n_acc"])
            return {"k": "call", "eff": "unannotated", "tag": self.tag, "callee": "local", "acc": a, "vals": [r.choice([x for x in scope if x not in INDEX_ARGS] or ["%x0"]) for _ in range(p["n_fields"][a])]}
        if k == "call":
            self.tag += 1
            return {
                "k": "call",
                "eff": r.choice(["none", "full", "unannotated", "unannotated"]),
                "tag": self.tag,
                "callee": "llvm" if p["llvm_call"] and r.random() < 0.5 else "func",
            }
        if k == "opq":
            self.tag += 1
            return {"k": "opq", "tag": self.tag, "args": [r.choice(scope) for _ in range(r.randint(0, 2))]}
        if mem and p.get("memory") and r.random() < p["memory"]:
            # configuration values kept in memory: a store of some value, or a load whose result can feed later setups
            if r.random() < 0.5:
                return {"k": "st", "val": r.choice([x for x in scope if x not in INDEX_ARGS] or ["%x0"])}
            v = self.fresh("m")
            scope.append(v)
            return {"k": "ld", "name": v}
        if mem and p.get("next_iv") and getattr(self, "loops", None) and r.random() < p["next_iv"]:
            # the body computes the induction variable of the next iteration itself (e.g. to prefetch the next tile)
            v = self.fresh("nx")
            iv, step = self.loops[-1]
            scope.append(v)
            return {"k": "nextiv", "name": v, "iv": iv, "step": step}
        v = self.fresh("v")
        st = {"k": "pure", "op": r.choice(PURE_OPS), "a": r.choice(scope), "b": r.choice(scope), "name": v}
        scope.append(v)
        return st

    def program(self):
        scope = ["%x0", "%x1", "%x2"] + [f"%k{j}" for j in range(self.p.get("consts", 0))]
        body = self.stmts(self.p["top_stmts"], scope, 0, False)
        if not any(has_kind(s, "sl") for s in body):
            st = {"k": "sl", "acc": 0, "vals": [self.r.choice(scope) for _ in range(self.p["n_fields"][0])], "gap": []}
            if self.p.get("n_launch"):
                st["lvals"] = [self.r.choice(self.p["launch_pool"]) for _ in range(self.p["n_launch"][0])]
            body.append(st)
        ast = {"n_acc": self.p["n_acc"], "n_fields": self.p["n_fields"][: self.p["n_acc"]], "body": body, "consts": self.p.get("consts", 0)}
        if self.p.get("multiblock") and self.r.random() < self.p["multiblock"]:
            # unstructured control flow behind the body: entry -> (b0 ? bb1 : bb2); bb1 -> bb2; bb2 -> return
            ast["blocks"] = [self.stmts(self.r.randint(1, 2), list(scope), 0, False), self.stmts(self.r.randint(1, 3), list(scope), 0, False)]
            if self.r.random() < 0.5:
                ast["cfg_loop"] = self.r.choice(["%n0", "%n1", "%n2"])  # ^bb1 is the body of a do-while loop written with cf.cond_br (1 .. n trips)
        if self.p.get("memory"):
            ast["memory"] = True
        return ast


def _walk_stmts(body):
    for s in body:
        yield s
        for key in ("body", "then", "else", "gap"):
            yield from _walk_stmts(s.get(key, []))


def has_kind(s, kind):
    if s["k"] == kind:
        return True
    for key in ("body", "then", "else", "gap"):
        if any(has_kind(c, kind) for c in s.get(key, [])):
            return True
    return False


def count_stmts(body):
    n = 0
    for s in body:
        n += 1
        for key in ("body", "then", "else", "gap"):
            n += count_stmts(s.get(key, []))
    return n


ARGS = ["%x0", "%x1", "%x2", "%n0", "%n1", "%n2", "%l0", "%t0", "%b0", "%b1", "%b2"]
ARG_TYPES = ["i32", "i32", "i32", "index", "index", "index", "index", "index", "i1", "i1", "i1"]


def emit(ast, acc_names=None, vty="i32", decls=()) -> str:
    """MLIR text of the program.  acc_names lets C04 substitute real accelerator names / fields."""
    L: list[str] = []
    cnt = [0]

    def e(ind, s):
        L.append("  " * ind + s)

    def fresh(p):
        cnt[0] += 1
        return f"%{p}_{cnt[0]}"

    names = acc_names or [{"name": f"acc{a}", "fields": FIELD_NAMES[: ast["n_fields"][a]]} for a in range(ast["n_acc"])]

    def stmts(ind, body):
        # pre-existing threading (C07): a setup marked "link" consumes the state of the previous setup ("stale": of an older one)
        # of its accelerator in the same block, provided nothing that may touch the accelerator sits in between
        last: dict = {}
        older: dict = {}  # every state of an accelerator defined so far in this block (all of them dominate what follows)

        def pick(s):
            if s.get("link") == "stale" and older.get(s["acc"]):
                return older[s["acc"]][(len(older[s["acc"]]) * 7 + len(s["vals"])) % len(older[s["acc"]])]
            return last.get(s.get("acc")) if s.get("link") else None

        def remember(s):
            if s["k"] == "sl" and s["acc"] in last:
                older.setdefault(s["acc"], []).append(last[s["acc"]])

        for s in body:
            k = s["k"]
            if k == "for" and s.get("carry_state") is not None and not s["carry"] and not s.get("as_while"):
                # a loop that already carries the state of one accelerator (hand-threaded / traced before), truthfully: the
                # body is a plain sequence of setups of that accelerator (no calls, no nesting), every setup continues the
                # previous one, the last one is yielded
                a = s["carry_state"]
                sls = [x for x in s["body"] if x["k"] == "sl"]
                simple = all(x["k"] in ("sl", "pure", "opq") and not x.get("gap") and not x.get("after") for x in s["body"])
                if simple and sls and all(x["acc"] == a for x in sls) and a in last:
                    emit_state_loop(ind, s, a, last[a], last)
                    continue
            if k in ("for", "if", "sw") or (k == "call" and s["eff"] != "none"):
                last.clear()
            if k == "sl" and s.get("gap") and any(g["k"] == "call" and g["eff"] != "none" for g in s["gap"]):
                stmt(ind, s, pick(s), last)
                remember(s)
                last.clear()
                continue
            stmt(ind, s, pick(s), last)
            remember(s)

    def emit_state_loop(ind, s, a, init, last):
        an = names[a]["name"]
        res, arg = fresh("ls"), fresh("la")
        e(ind, f'{res} = scf.for {s["iv"]} = {s["lb"]} to {s["ub"]} step {s["step"]} iter_args({arg} = {init}) -> (!accfg.state<"{an}">) {{')
        e(ind + 1, f'{s["ic"]} = arith.index_cast {s["iv"]} : index to {vty}')
        inner: dict = {a: arg}
        if s.get("head_launch"):
            first = next(x for x in s["body"] if x["k"] == "sl")
            lv = first.get("lvals", [])
            lnames = ", ".join(f'"{n}"' for n in names[a].get("launch_fields", [])[: len(lv)])
            tk = fresh("t")
            hi = ind + 1
            if s["head_launch"] == "if":
                e(hi, f'scf.if {["%b0", "%b1", "%b2"][len(s["body"]) % 3]} {{')
                hi += 1
            e(hi, f'{tk} = "accfg.launch"({"".join(f"{v}, " for v in lv)}{arg}) <{{param_names = [{lnames}], accelerator = "{an}"}}> : ({"".join(f"{vty}, " for _ in lv)}!accfg.state<"{an}">) -> !accfg.token<"{an}">')
            e(hi, f'"accfg.await"({tk}) : (!accfg.token<"{an}">) -> ()')
            if s["head_launch"] == "if":
                e(ind + 1, "}")
        n_sl = sum(x["k"] == "sl" for x in s["body"])
        fresh_from = n_sl - min(s.get("stale_yield", 0), n_sl)  # setups from this one on are not part of the old threading
        seen, yielded = 0, arg
        for x in s["body"]:
            if x["k"] == "sl":
                stmt(ind + 1, x, inner[a] if seen < fresh_from else None, inner)
                seen += 1
                if seen <= fresh_from:
                    yielded = inner[a]
            else:
                stmt(ind + 1, x, None, inner)
        e(ind + 1, f'scf.yield {yielded} : !accfg.state<"{an}">')
        e(ind, "}")
        last.clear()
        last[a] = res

    def stmt(ind, s, link=None, last=None):
        k = s["k"]
        if k == "sl":
            acc = names[s["acc"]]
            st, tk = fresh("s"), fresh("t")
            # values named %n.. / %l0 / %t0 are the index-typed function arguments (C04: the lowering has to cast them)
            omit = set(s.get("omit", ()))
            fs = ", ".join(f'"{f}" = {v} : {"index" if v in INDEX_ARGS else vty}' for j, (f, v) in enumerate(zip(acc["fields"], s["vals"])) if j not in omit)
            an = acc["name"]
            frm = f" from {link}" if link else ""
            e(ind, f'{st} = accfg.setup "{an}"{frm} to ({fs}) : !accfg.state<"{an}">')
            if last is not None:
                last[s["acc"]] = st
            lv = s.get("lvals", [])
            lf = acc.get("launch_fields", [])[: len(lv)]
            if s.get("lperm") and all(j < len(lv) for j in s["lperm"]):
                lv, lf = [lv[j] for j in s["lperm"]], [lf[j] for j in s["lperm"]]
            lnames = ", ".join(f'"{n}"' for n in lf)
            largs = "".join(f"{v}, " for v in lv)
            ltys = "".join(f"{vty}, " for _ in lv)
            pc = s.get("pc")
            attrs = f' {{m = {pc["m"]} : i32, mult_vals = array<i32: {", ".join(map(str, pc["mult"]))}>, shift_vals = array<i32: {", ".join(map(str, pc["shift"]))}>}}' if pc else ""
            if not s.get("nolaunch"):
                e(ind, f'{tk} = "accfg.launch"({largs}{st}) <{{param_names = [{lnames}], accelerator = "{an}"}}>{attrs} : ({ltys}!accfg.state<"{an}">) -> !accfg.token<"{an}">')
            for g in s.get("gap", []):
                stmt(ind, g)
            if not s.get("nolaunch"):
                e(ind, f'"accfg.await"({tk}) : (!accfg.token<"{an}">) -> ()')
            af = s.get("after")
            if af:
                def relaunch(i2):
                    for _ in range(af["n"]):
                        t2 = fresh("t")
                        e(i2, f'{t2} = "accfg.launch"({largs}{st}) <{{param_names = [{lnames}], accelerator = "{an}"}}> : ({ltys}!accfg.state<"{an}">) -> !accfg.token<"{an}">')
                        e(i2, f'"accfg.await"({t2}) : (!accfg.token<"{an}">) -> ()')

                if af["kind"] == "plain":
                    relaunch(ind)
                elif af["kind"] == "if":
                    e(ind, f'scf.if {af["cond"]} {{')
                    relaunch(ind + 1)
                    e(ind, "}")
                else:
                    e(ind, f'scf.for {fresh("ir")} = %c0 to {af["ub"]} step %c1 {{')
                    relaunch(ind + 1)
                    e(ind, "}")
        elif k == "call":
            eff = {"none": '"accfg.effects" = #accfg.effects<none>, ', "full": '"accfg.effects" = #accfg.effects<full>, ', "unannotated": ""}[s["eff"]]
            if s.get("callee") == "local":
                tys = ", ".join(vty for _ in s["vals"])
                e(ind, f'func.call @loc{s["acc"]}({", ".join(s["vals"])}) {{"vtag" = {s["tag"]} : i64}} : ({tys}) -> ()')
            elif s.get("callee") == "llvm":
                e(ind, f'"llvm.call"() <{{callee = @lext, fastmathFlags = #llvm.fastmath<none>, CConv = #llvm.cconv<ccc>, TailCallKind = #llvm.tailcallkind<none>, operandSegmentSizes = array<i32: 0, 0>, op_bundle_sizes = array<i32>}}> {{{eff}"vtag" = {s["tag"]} : i64}} : () -> ()')
            else:
                e(ind, f'func.call @ext() {{{eff}"vtag" = {s["tag"]} : i64}} : () -> ()')
        elif k == "opq":
            tys = ", ".join(vty for _ in s["args"])
            e(ind, f'"test.op"({", ".join(s["args"])}) {{"vtag" = {s["tag"]} : i64}} : ({tys}) -> ()')
        elif k == "pure":
            e(ind, f'{s["name"]} = arith.{s["op"]} {s["a"]}, {s["b"]} : {vty}')
        elif k == "nextiv":
            e(ind, f'{s["name"]}_i = arith.addi {s["iv"]}, {s["step"]} : index')
            e(ind, f'{s["name"]} = arith.index_cast {s["name"]}_i : index to {vty}')
        elif k == "for" and s.get("as_while") and not s["carry"]:
            iv = s["iv"]
            e(ind, f'{iv}_end = scf.while ({iv}_a = {s["lb"]}) : (index) -> (index) {{')
            e(ind + 1, f'{iv}_c = arith.cmpi slt, {iv}_a, {s["ub"]} : index')
            e(ind + 1, f"scf.condition({iv}_c) {iv}_a : index")
            e(ind, "} do {")
            e(ind, f"^bb0({iv} : index):")
            e(ind + 1, f'{s["ic"]} = arith.index_cast {iv} : index to {vty}')
            stmts(ind + 1, s["body"])
            e(ind + 1, f'{iv}_n = arith.addi {iv}, {s["step"]} : index')
            e(ind + 1, f"scf.yield {iv}_n : index")
            e(ind, "}")
        elif k == "for" and s.get("eff_tag"):
            # generic form: the custom syntax of scf.for has no place for attributes
            cs = s["carry"]
            e(ind, (", ".join(s["res"]) + " = " if cs else "") + f'"scf.for"({", ".join([s["lb"], s["ub"], s["step"]] + [c[1] for c in cs])}) ({{')
            e(ind, f'^bb0({", ".join([s["iv"] + " : index"] + [f"{c[0]} : {vty}" for c in cs])}):')
            e(ind + 1, f'{s["ic"]} = arith.index_cast {s["iv"]} : index to {vty}')
            stmts(ind + 1, s["body"])
            e(ind + 1, "scf.yield" + (" " + ", ".join(c[2] for c in cs) + " : " + ", ".join(vty for _ in cs) if cs else ""))
            e(ind, f'}}) {{"accfg.effects" = #accfg.effects<full>, "vtag" = {s["eff_tag"]} : i64}} : ({", ".join(["index"] * 3 + [vty] * len(cs))}) -> ({", ".join(vty for _ in cs)})')
        elif k == "for":
            head = f'scf.for {s["iv"]} = {s["lb"]} to {s["ub"]} step {s["step"]}'
            if s["carry"]:
                head = (
                    ", ".join(s["res"])
                    + " = "
                    + head
                    + " iter_args("
                    + ", ".join(f"{c[0]} = {c[1]}" for c in s["carry"])
                    + ") -> ("
                    + ", ".join(vty for _ in s["carry"])
                    + ")"
                )
            e(ind, head + " {")
            e(ind + 1, f'{s["ic"]} = arith.index_cast {s["iv"]} : index to {vty}')
            stmts(ind + 1, s["body"])
            if s["carry"]:
                e(ind + 1, "scf.yield " + ", ".join(c[2] for c in s["carry"]) + " : " + ", ".join(vty for _ in s["carry"]))
            e(ind, "}")
        elif k == "st":
            e(ind, f'memref.store {s["val"]}, %mem[%c0] : memref<1x{vty}>')
        elif k == "ld":
            e(ind, f'{s["name"]} = memref.load %mem[%c0] : memref<1x{vty}>')
        elif k == "sw":
            e(ind, f'"scf.index_switch"({s["sel"]}) <{{cases = array<i64: 0>}}> ({{')
            stmts(ind + 1, s["else"])
            e(ind + 1, "scf.yield")
            e(ind, "}, {")
            stmts(ind + 1, s["then"])
            e(ind + 1, "scf.yield")
            e(ind, "}) : (index) -> ()")
        elif k == "if" and s.get("res"):
            name, tv, ev = s["res"]
            e(ind, f'{name} = scf.if {s["cond"]} -> ({vty}) {{')
            stmts(ind + 1, s["then"])
            e(ind + 1, f"scf.yield {tv} : {vty}")
            e(ind, "} else {")
            stmts(ind + 1, s["else"])
            e(ind + 1, f"scf.yield {ev} : {vty}")
            e(ind, "}")
        elif k == "if":
            e(ind, f'scf.if {s["cond"]} {{')
            stmts(ind + 1, s["then"])
            if s["else"]:
                e(ind, "} else {")
                stmts(ind + 1, s["else"])
            e(ind, "}" + (f' {{"accfg.effects" = #accfg.effects<full>, "vtag" = {s["eff_tag"]} : i64}}' if s.get("eff_tag") else ""))
        else:
            raise ValueError(k)

    e(0, "builtin.module {")
    for d in decls:
        e(1, d)
    e(1, "func.func private @ext() -> ()")
    e(1, '"llvm.func"() <{sym_name = "lext", function_type = !llvm.func<void ()>, CConv = #llvm.cconv<ccc>, linkage = #llvm.linkage<"external">, visibility_ = 0 : i64}> ({}) : () -> ()')
    e(1, "func.func @f(" + ", ".join(f"{a} : {vty if t == 'i32' else t}" for a, t in zip(ARGS, ARG_TYPES)) + ") {")
    for c in range(4):
        e(2, f"%c{c} = arith.constant {c} : index")
    for j in range(ast.get("consts", 0)):
        e(2, f"%k{j} = arith.constant {1000 + 7 * j} : {vty}")
    e(2, "%ctrue = arith.constant true")
    e(2, "%cfalse = arith.constant false")
    e(2, f"%one = arith.constant 1 : {vty}")
    e(2, f"%zero = arith.constant 0 : {vty}")
    if ast.get("memory"):
        e(2, f"%mem = memref.alloc() : memref<1x{vty}>")
        e(2, f"memref.store %x0, %mem[%c0] : memref<1x{vty}>")
    for nm, v in sorted(ast.get("extra_consts", {}).items()):
        e(2, f"{nm} = arith.constant {v} : {vty}")
    stmts(2, ast["body"])
    if ast.get("blocks") and ast.get("cfg_loop"):
        e(2, "cf.br ^bb1(%c0 : index)")
        e(1, "^bb1(%cfk : index):")
        stmts(2, ast["blocks"][0])
        e(2, "%cfk1 = arith.addi %cfk, %c1 : index")
        e(2, f'%cfc = arith.cmpi slt, %cfk1, {ast["cfg_loop"]} : index')
        e(2, "cf.cond_br %cfc, ^bb1(%cfk1 : index), ^bb2")
        e(1, "^bb2:")
        stmts(2, ast["blocks"][1])
    elif ast.get("blocks"):
        e(2, "cf.cond_br %b0, ^bb1, ^bb2")
        e(1, "^bb1:")
        stmts(2, ast["blocks"][0])
        e(2, "cf.br ^bb2")
        e(1, "^bb2:")
        stmts(2, ast["blocks"][1])
    e(2, "func.return")
    e(1, "}")
    for a in sorted({s_["acc"] for s_ in _walk_stmts(ast["body"] + [x for b in ast.get("blocks", []) for x in b]) if s_["k"] == "call" and s_.get("callee") == "local"}):
        fields = names[a]["fields"]
        an = names[a]["name"]
        e(1, f'func.func @loc{a}({", ".join(f"%q{j} : {vty}" for j in range(len(fields)))}) {{')
        fs = ", ".join(f'"{f}" = %q{j} : {vty}' for j, f in enumerate(fields))
        e(2, f'%ls = accfg.setup "{an}" to ({fs}) : !accfg.state<"{an}">')
        e(2, f'%lt = "accfg.launch"(%ls) <{{param_names = [], accelerator = "{an}"}}> : (!accfg.state<"{an}">) -> !accfg.token<"{an}">')
        e(2, f'"accfg.await"(%lt) : (!accfg.token<"{an}">) -> ()')
        e(2, "func.return")
        e(1, "}")
    e(0, "}")
    return "\n".join(L)


def gen_env(rng, fault=True):
    """One runtime environment: argument values + fault configuration."""
    trip = [0, 1, 2, 3, 4, 9]
    env = {
        "x": [rng.randrange(1, 4) for _ in range(3)],
        "n": [rng.choice(trip) for _ in range(3)],
        "l": rng.choice([0, 1, 2, 3, -1, -2, -3]),  # also iteration spaces that start below zero
        "t": rng.choice([1, 2, 3]),
        "b": [rng.randrange(2) for _ in range(3)],
        "seed": rng.randrange(1 << 30),
        "clobber": bool(fault and rng.random() < 0.8),
        "latency": rng.choice([0, 1, 5, 50, 10000]) if fault else 0,
    }
    return env


def env_args(env):
    return [*env["x"], *env["n"], env["l"], env["t"], *env["b"]]


# ------------------------------------------------------------------ shrinking


def shrink_body(body):
    """Yield structurally smaller bodies (one change each)."""
    for i, s in enumerate(body):
        yield body[:i] + body[i + 1 :]
    for i, s in enumerate(body):
        k = s["k"]
        if k == "for" and not s["carry"]:
            # unwrapping is only name-safe when the body does not use iv-derived values; the
            # candidate is simply rejected by the parser otherwise
            yield body[:i] + s["body"] + body[i + 1 :]
        if k in ("if", "for") and s.get("eff_tag"):
            yield body[:i] + [{kk: vv for kk, vv in s.items() if kk != "eff_tag"}] + body[i + 1 :]
        if k in ("if", "sw"):
            yield body[:i] + s["then"] + body[i + 1 :]
            yield body[:i] + s["else"] + body[i + 1 :]
        if k == "sw":
            yield body[:i] + [dict({kk: vv for kk, vv in s.items() if kk != "sel"}, k="if", cond="%b0")] + body[i + 1 :]
        if k == "sl" and s.get("gap"):
            yield body[:i] + [dict(s, gap=[])] + body[i + 1 :]
        if k == "sl" and s.get("after"):
            yield body[:i] + [{kk: vv for kk, vv in s.items() if kk != "after"}] + body[i + 1 :]
            if s["after"]["kind"] != "plain":
                yield body[:i] + [dict(s, after=dict(s["after"], kind="plain"))] + body[i + 1 :]
        for key in ("body", "then", "else", "gap"):
            if s.get(key):
                for nb in shrink_body(s[key]):
                    yield body[:i] + [dict(s, **{key: nb})] + body[i + 1 :]
        if k == "for" and s.get("stale_yield"):
            yield body[:i] + [{kk: vv for kk, vv in s.items() if kk != "stale_yield"}] + body[i + 1 :]
        if k == "for" and s.get("head_launch"):
            yield body[:i] + [{kk: vv for kk, vv in s.items() if kk != "head_launch"}] + body[i + 1 :]
            if s["head_launch"] == "if":
                yield body[:i] + [dict(s, head_launch=True)] + body[i + 1 :]
        if k == "for":
            for fld, simple in (("lb", "%c0"), ("step", "%c1"), ("ub", "%c1"), ("ub", "%c2")):
                if s[fld] != simple and not (fld == "ub" and s[fld] in ("%c1", "%c2")):
                    yield body[:i] + [dict(s, **{fld: simple})] + body[i + 1 :]
        if k == "call" and s.get("callee") == "llvm":
            yield body[:i] + [dict(s, callee="func")] + body[i + 1 :]
        if k == "call" and s.get("callee") == "local":
            yield body[:i] + [{kk: vv for kk, vv in dict(s, callee="func").items() if kk not in ("acc", "vals")}] + body[i + 1 :]
        if k == "sl" and s.get("lperm"):
            yield body[:i] + [{kk: vv for kk, vv in s.items() if kk != "lperm"}] + body[i + 1 :]
        if k == "sl" and s.get("omit"):
            yield body[:i] + [{kk: vv for kk, vv in s.items() if kk != "omit"}] + body[i + 1 :]
        if k == "sl":
            for j, v in enumerate(s["vals"]):
                if v != "%x0":
                    nv = list(s["vals"])
                    nv[j] = "%x0"
                    yield body[:i] + [dict(s, vals=nv)] + body[i + 1 :]


def shrink_ast(ast):
    for nb in shrink_body(ast["body"]):
        yield dict(ast, body=nb)
    if ast.get("cfg_loop"):
        yield {k: v for k, v in ast.items() if k != "cfg_loop"}
    if ast.get("blocks"):
        yield {k: v for k, v in ast.items() if k not in ("blocks", "cfg_loop")}
        for j in (0, 1):
            for nb in shrink_body(ast["blocks"][j]):
                yield dict(ast, blocks=[nb if i == j else b for i, b in enumerate(ast["blocks"])])


def shrink_env(env):
    if env.get("clobber"):
        yield dict(env, clobber=False)
    if env.get("latency"):
        yield dict(env, latency=0)
    for key in ("n", "x", "b"):
        for j, v in enumerate(env[key]):
            for smaller in sorted({0, 1, v - 1}):
                if 0 <= smaller < v:
                    nv = list(env[key])
                    nv[j] = smaller
                    yield dict(env, **{key: nv})
    for key, lo in (("l", 0), ("t", 1)):
        if env[key] > lo:
            yield dict(env, **{key: lo})
