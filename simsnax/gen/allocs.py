"""Allocation family (DESIGN.md §4, C11): sequences of L1 allocs (function top level), subviews, tagged uses
in straight-line code and nested in loops / ifs.

  {"k":"alloc","name":"%bN","site":n,"n":elements,"el":"i8"|..,"align":a}
  {"k":"view","name":"%vN","src":"%bN","off":o,"len":l}
  {"k":"cast","name":"%wN","src":buf-or-view}               builtin.unrealized_conversion_cast to the same type
  {"k":"use","tag":n,"bufs":[ref..]}
  {"k":"for","iv":"%iN","trips":t,"body":[..]}   {"k":"if","cond":"%p0","then":[..],"else":[..]}
"""
from __future__ import annotations

ELB = {"i8": 1, "i32": 4, "i64": 8, "i4": 1, "i12": 2}


class AllocGen:
    def __init__(self, rng, views=True, two_mem=False, odd_align=False, dyn_allocs=0.0, ptr_uses=0.0):
        self.ptr_uses = ptr_uses  # raw addresses taken from buffers (memref.extract_aligned_pointer_as_index) and used later
        self.ptrs: list[str] = []
        self.dyn_allocs = dyn_allocs  # share of the buffers whose size is only known at run time (judged statically only)
        self.two_mem = two_mem
        self.odd_align = odd_align  # alignments that are not powers of two (and do not divide each other)
        self.r = rng
        self.n = 0
        self.tag = 0
        self.types: dict[str, str] = {}
        self.site_of: dict[str, int] = {}
        self.allocs: list[str] = []
        self.refs: list[str] = []
        self.views_on = views
        self.unused: set[str] = set()
        self.joins: list[str] = []
        self.unranked: list[str] = []

    def fresh(self, p):
        self.n += 1
        return f"%{p}{self.n}"

    def use(self):
        self.tag += 1
        k = 1 if self.r.random() < 0.8 else 2
        bufs = [self.r.choice(self.refs + self.unranked + self.ptrs) for _ in range(k)]
        # make sure every alloc gets at least one use (an unused alloc makes MiniMallocate raise StopIteration)
        if self.unused:
            bufs[0] = sorted(self.unused)[0]
        for b in bufs:
            if not isinstance(self.site_of[b], list):  # a use through a join does not count as the direct use
                self.unused = {u for u in self.unused if self.site_of[u] != self.site_of[b]}
        return {"k": "use", "tag": self.tag, "bufs": bufs, "sites": [self.site_of[b] for b in bufs]}

    def stmt(self, depth):
        r = self.r
        w = [3 if depth == 0 else 0, 5 if self.refs else 0, (2 if self.views_on and self.allocs and depth == 0 else 0), (1 if self.views_on and self.refs and depth == 0 else 0), 1 if depth < 2 and self.refs else 0, 1 if depth < 2 and self.refs else 0, (4 if self.views_on and len(self.refs) >= 2 and depth == 0 else 0)]
        k = r.choices(["alloc", "use", "view", "cast", "for", "if", "select"], w)[0]
        if self.ptr_uses and depth == 0 and r.random() < self.ptr_uses:
            direct = [x for x in self.refs if isinstance(self.site_of[x], int) and "*" not in self.types[x]]
            if direct:
                # the raw address of a buffer, as an index: what a DMA call or an accelerator setup is given
                src = r.choice(direct)
                nm = self.fresh("q")
                self.types[nm] = "index"
                self.site_of[nm] = self.site_of[src]
                self.ptrs.append(nm)
                return {"k": "ptr", "name": nm, "src": src}
        if k == "select":
            # a join: one value that is one of two buffers (same type) depending on a run-time condition
            a = r.choice(self.refs)
            same = [x for x in self.refs if x != a and self.types[x] == self.types[a]]
            other = [x for x in same if self.site_of[x] != self.site_of[a]]  # prefer a join of two different allocations
            same = other or same
            if not same:
                k = "use"
            else:
                b = r.choice(same)
                nm = self.fresh("j")
                self.types[nm] = self.types[a]
                self.refs.append(nm)
                self.site_of[nm] = [self.site_of[a], self.site_of[b]]
                st = {"k": "select", "name": nm, "cond": r.choice([0, 1]), "a": a, "b": b, "via": r.choice(["select", "select", "if", "if", "for", "for", "while"]), "trips": r.choice([0, 1, 2]), "inner_cast": r.random() < 0.5}
                direct = not isinstance(self.site_of[a], list) and not isinstance(self.site_of[b], list) and a in self.allocs and b in self.allocs
                if st["via"] == "for" and direct and r.random() < 0.7:
                    # the loop-carried value is used inside the loop (first trip: %a, later trips: %b - resolved at run time through
                    # the allocation instance); half of the time the result of the loop is not used at all
                    self.tag += 1
                    st["inloop"] = self.tag
                    st["trips"] = r.choice([1, 2, 3])
                    if r.random() < 0.5:
                        st["unused_result"] = True
                        self.refs.remove(nm)
                        return st
                self.joins.append(nm)
                return st
        if k == "alloc" and self.dyn_allocs and r.random() < self.dyn_allocs:
            # a buffer whose size depends on a run-time value (%p0): not viewed, not joined, only used
            nm = self.fresh("b")
            el = r.choice(list(ELB))
            self.tag += 1
            self.types[nm] = f'memref<?x{el}, "L1">'
            self.refs.append(nm)
            self.unused.add(nm)
            self.site_of[nm] = self.tag
            return {"k": "alloc", "name": nm, "site": self.tag, "n": [r.choice([3, 8, 16, 64]), r.choice([4, 5, 24])], "el": el, "align": r.choice([1, 4, 8, 64]), "dyn": True}
        if k == "alloc":
            nm = self.fresh("b")
            el = r.choice(list(ELB))
            n = r.choice([3, 4, 5, 8, 16, 16, 24, 64])
            if self.allocs and r.random() < 0.4:
                # the same type as an earlier buffer, so that the two can be joined (select / if / loop-carried)
                prev = self.types[r.choice(self.allocs)]
                n, el = int(prev.split("<")[1].split("x")[0]), prev.split("x")[1].split(",")[0]
            self.tag += 1
            space = "L3" if self.two_mem and r.random() < 0.35 else "L1"
            self.types[nm] = f'memref<{n}x{el}, "{space}">'
            self.allocs.append(nm)
            self.refs.append(nm)
            self.unused.add(nm)
            self.site_of[nm] = self.tag
            st = {"k": "alloc", "name": nm, "site": self.tag, "n": n, "el": el, "align": r.choice([1, 4, 8, 64, 64, 256] + ([3, 10, 14, 24, 96] if self.odd_align else []))}
            if space != "L1" or st["align"] & (st["align"] - 1):
                # a second memory in the same function (emitted as snax.alloc: memref-to-snax only converts L1); alignments
                # that are not powers of two are written as snax.alloc as well (memref.alloc does not verify with them)
                st["space"] = space
            return st
        if k == "use":
            return self.use()
        if k == "view":
            src = r.choice(self.allocs)
            n = int(self.types[src].split("<")[1].split("x")[0])
            el = self.types[src].split("x")[1].split(",")[0]
            ln = r.choice([x for x in (1, 2, 4) if x <= n])
            off = r.randrange(0, n - ln + 1)
            nm = self.fresh("v")
            self.types[nm] = f'memref<{ln}x{el}, strided<[1], offset: {off}>, {self.types[src].rsplit(", ", 1)[1]}'
            self.refs.append(nm)
            self.site_of[nm] = self.site_of[src]
            return {"k": "view", "name": nm, "src": src, "off": off, "len": ln}
        if k == "cast":
            src = r.choice([x for x in self.refs if "*" not in self.types[x]])
            nm = self.fresh("w")
            if r.random() < 0.3 and "strided" not in self.types[src]:
                # memref.cast to an unranked memref (what is handed to a debug / library call): only used, never viewed again
                el = self.types[src].split("x")[1].split(",")[0]
                self.types[nm] = f'memref<*x{el}, {self.types[src].rsplit(", ", 1)[1]}'
                self.site_of[nm] = self.site_of[src]
                self.unranked.append(nm)
                return {"k": "cast", "name": nm, "src": src, "unranked": True}
            self.types[nm] = self.types[src]
            self.refs.append(nm)
            self.site_of[nm] = self.site_of[src]
            return {"k": "cast", "name": nm, "src": src}
        if k == "for":
            body = [self.stmt(depth + 1) for _ in range(r.randint(1, 3))]
            return {"k": "for", "iv": self.fresh("i"), "trips": r.choice([0, 1, 2]), "body": body}
        return {"k": "if", "cond": r.choice(["%p0", "%p1"]), "then": [self.stmt(depth + 1) for _ in range(r.randint(1, 2))], "else": [self.stmt(depth + 1) for _ in range(r.randint(0, 1))]}

    def program(self, callee=False):
        body = [self.stmt(0) for _ in range(self.r.randint(4, 14))]
        if callee:
            # a second function with its own buffers, called from somewhere in this one
            g = AllocGen(self.r, views=False)
            g.tag = 1000
            gast = g.program()
            body.insert(self.r.randint(0, len(body)), {"k": "call"})
            self.callee = gast
        while self.unused:
            body.append(self.use())
        for u in self.unranked:
            if self.r.random() < 0.7:
                self.tag += 1
                body.append({"k": "use", "tag": self.tag, "bufs": [u], "sites": [self.site_of[u]]})
        for j in self.joins:
            # a joined value is used once more at the very end, after every later allocation
            if self.r.random() < 0.7:
                self.tag += 1
                body.append({"k": "use", "tag": self.tag, "bufs": [j], "sites": [self.site_of[j]]})
        if not self.allocs:
            body.insert(0, self.stmt(0))
            body.append(self.use())
        ast = {"body": body, "types": self.types}
        if callee:
            ast["callee"] = self.callee
        return ast


def emit(ast, p=(0, 0), fname="f", wrap=True) -> str:
    L = []
    T = ast["types"]
    joined: dict = {}  # join name -> resolved source-level site for these conditions

    def e(ind, s):
        L.append("  " * ind + s)

    def stmts(ind, body):
        for s in body:
            k = s["k"]
            if k == "alloc" and s.get("space"):
                st_ = "!llvm.struct<(!llvm.ptr, !llvm.ptr, i32, !llvm.array<1 x i32>, !llvm.array<1 x i32>)>"
                nm_ = s["name"]
                e(ind, f'{nm_}_s = arith.constant {s["n"] * ELB[s["el"]]} : index')
                e(ind, f'{nm_}_n = arith.constant {s["n"]} : index')
                e(ind, f'{nm_}_a = "snax.alloc"({nm_}_s, {nm_}_n) <{{memory_space = "{s["space"]}", alignment = {s["align"]} : i64}}> : (index, index) -> {st_}')
                e(ind, f"{nm_} = builtin.unrealized_conversion_cast {nm_}_a : {st_} to {T[nm_]}")
                if births:
                    e(ind, f'"test.op"({nm_}) {{vtag = {9000 + s["site"]} : i64, vsites = [{s["site"]} : i64]}} : ({T[nm_]}) -> ()')
            elif k == "alloc" and s.get("dyn"):
                nm_ = s["name"]
                e(ind, f'{nm_}_t = arith.constant {s["n"][0]} : index')
                e(ind, f'{nm_}_f = arith.constant {s["n"][1]} : index')
                e(ind, f"{nm_}_n = arith.select %p0, {nm_}_t, {nm_}_f : index")
                e(ind, f'{nm_} = memref.alloc({nm_}_n) {{alignment = {s["align"]} : i64, vsite = {s["site"]} : i64}} : {T[nm_]}')
            elif k == "alloc":
                e(ind, f'{s["name"]} = memref.alloc() {{alignment = {s["align"]} : i64, vsite = {s["site"]} : i64}} : {T[s["name"]]}')
                if births:
                    # name the allocation instance at once (a use with a static site), so that a use that only knows its buffer at
                    # run time (a loop-carried value) can be attributed to it
                    e(ind, f'"test.op"({s["name"]}) {{vtag = {9000 + s["site"]} : i64, vsites = [{s["site"]} : i64]}} : ({T[s["name"]]}) -> ()')
            elif k == "view":
                e(ind, f'{s["name"]} = memref.subview {s["src"]}[{s["off"]}][{s["len"]}][1] : {T[s["src"]]} to {T[s["name"]]}')
            elif k == "cast" and s.get("unranked"):
                e(ind, f'{s["name"]} = "memref.cast"({s["src"]}) : ({T[s["src"]]}) -> {T[s["name"]]}')
            elif k == "cast":
                e(ind, f'{s["name"]} = builtin.unrealized_conversion_cast {s["src"]} : {T[s["src"]]} to {T[s["name"]]}')
            elif k == "select":
                if s.get("via") == "if":
                    # the same join through the results of an scf.if: the buffers leave the regions through scf.yield
                    ty = T[s["name"]]
                    e(ind, f'{s["name"]} = scf.if %p{s["cond"]} -> ({ty}) {{')
                    if s.get("inner_cast"):
                        # ... one of them as a cast that only exists inside the region
                        e(ind + 1, f'%ic{s["name"][1:]} = builtin.unrealized_conversion_cast {s["a"]} : {ty} to {ty}')
                        e(ind + 1, f'scf.yield %ic{s["name"][1:]} : {ty}')
                    else:
                        e(ind + 1, f'scf.yield {s["a"]} : {ty}')
                    e(ind, "} else {")
                    e(ind + 1, f'scf.yield {s["b"]} : {ty}')
                    e(ind, "}")
                elif s.get("via") == "while":
                    # a search-style loop: the buffer leaves the scf.while through scf.condition (next to an index), it is
                    # not an init operand; the loop stops at once, the result is %a
                    ty = T[s["name"]]
                    n_ = s["name"][1:]
                    e(ind, f'%wi{n_}, {s["name"]} = scf.while (%wa{n_} = %c0) : (index) -> (index, {ty}) {{')
                    e(ind + 1, f"%wc{n_} = arith.cmpi slt, %wa{n_}, %c0 : index")
                    e(ind + 1, f'scf.condition(%wc{n_}) %wa{n_}, {s["a"]} : index, {ty}')
                    e(ind, "} do {")
                    e(ind, f"^bb0(%wx{n_} : index, %wy{n_} : {ty}):")
                    e(ind + 1, f"scf.yield %wx{n_} : index")
                    e(ind, "}")
                elif s.get("via") == "for":
                    # a loop-carried buffer: the loop result is %a after zero trips, %b otherwise
                    # (the trip count depends on a function argument so that canonicalize cannot fold the loop away:
                    # 0 trips if the condition holds, s["trips"] otherwise)
                    ty = T[s["name"]]
                    e(ind, f'%ub{s["name"][1:]} = arith.select %p{s["cond"]}, %c0, %c{max(1, s["trips"])} : index')
                    e(ind, f'{s["name"]} = scf.for %q{s["name"][1:]} = %c0 to %ub{s["name"][1:]} step %c1 iter_args(%m{s["name"][1:]} = {s["a"]}) -> ({ty}) {{')
                    if s.get("inloop"):
                        e(ind + 1, f'"test.op"(%m{s["name"][1:]}) {{vtag = {s["inloop"]} : i64, vsites = [-1 : i64]}} : ({ty}) -> ()')
                    e(ind + 1, f'scf.yield {s["b"]} : {ty}')
                    e(ind, "}")
                else:
                    e(ind, f'{s["name"]} = arith.select %p{s["cond"]}, {s["a"]}, {s["b"]} : {T[s["name"]]}')
            elif k == "ptr":
                e(ind, f'{s["name"]} = "memref.extract_aligned_pointer_as_index"({s["src"]}) : ({T[s["src"]]}) -> index')
            elif k == "use":
                sites = ", ".join(f"{x} : i64" for x in (joined.get(b, x_) for b, x_ in zip(s["bufs"], s["sites"])))
                e(ind, f'"test.op"({", ".join(s["bufs"])}) {{vtag = {s["tag"]} : i64, vsites = [{sites}]}} : ({", ".join(T[b] for b in s["bufs"])}) -> ()')
            elif k == "for":
                e(ind, f'scf.for {s["iv"]} = %c0 to %c{s["trips"]} step %c1 {{')
                stmts(ind + 1, s["body"])
                e(ind, "}")
            elif k == "if":
                e(ind, f'scf.if {s["cond"]} {{')
                stmts(ind + 1, s["then"])
                if s["else"]:
                    e(ind, "} else {")
                    stmts(ind + 1, s["else"])
                e(ind, "}")
            elif k == "call":
                e(ind, "func.call @g(%p0, %p1) : (i1, i1) -> ()")

    site_of_name: dict = {}
    births = any(s_.get("inloop") for s_ in _flat(ast["body"]))

    def scan(body):
        for s in body:
            if s["k"] == "alloc":
                site_of_name[s["name"]] = s["site"]
            elif s["k"] in ("view", "cast"):
                site_of_name[s["name"]] = site_of_name.get(s["src"])
            elif s["k"] == "select":
                first = True if s.get("via") == "while" else p[s["cond"]]  # "for": zero trips iff the condition holds
                site_of_name[s["name"]] = site_of_name.get(s["a"] if first else s["b"])
                joined[s["name"]] = site_of_name[s["name"]]
            for key in ("body", "then", "else"):
                scan(s.get(key, []))

    scan(ast["body"])
    # views / casts of joins inherit the resolved site
    for s_ in _flat(ast["body"]):
        if s_["k"] in ("view", "cast") and site_of_name.get(s_["name"]) is not None:
            src = s_["src"]
            if src in joined:
                joined[s_["name"]] = joined[src]
    if wrap:
        e(0, "builtin.module {")
    e(1, f"func.func @{fname}(%p0 : i1, %p1 : i1) {{")
    for c in range(4):
        e(2, f"%c{c} = arith.constant {c} : index")
    stmts(2, ast["body"])
    e(2, "func.return")
    e(1, "}")
    if ast.get("callee"):
        L.append(emit(ast["callee"], p, fname="g", wrap=False))
    if wrap:
        e(0, "}")
    return "\n".join(L)


def _flat(body):
    for s in body:
        yield s
        for key in ("body", "then", "else"):
            yield from _flat(s.get(key, []))


def shrink_body(body):
    for i, s in enumerate(body):
        yield body[:i] + body[i + 1 :]
    for i, s in enumerate(body):
        if s["k"] == "for":
            yield body[:i] + s["body"] + body[i + 1 :]
            for nb in shrink_body(s["body"]):
                yield body[:i] + [dict(s, body=nb)] + body[i + 1 :]
        if s["k"] == "if":
            yield body[:i] + s["then"] + body[i + 1 :]
        if s["k"] == "use" and len(s["bufs"]) > 1:
            yield body[:i] + [dict(s, bufs=s["bufs"][:1], sites=s["sites"][:1])] + body[i + 1 :]
        if s["k"] == "alloc" and s["align"] != 1:
            yield body[:i] + [dict(s, align=1)] + body[i + 1 :]
