"""Seeded accelerator configurations for C04 (DESIGN.md §5 C04): JSON description <-> repo object."""
from __future__ import annotations

REG_OPTS = ["a", "b", "c", "transpose"]
XDMA_OPTS = ["c", "bm", "maxpool", "memset", "transpose", "rescaledown", "rescaleup", "add", "addlong"]


def gen_streamer(rng, opts):
    return {
        "type": rng.choice(["r", "w"]),
        "temporal": [rng.choice("nnir") for _ in range(rng.randint(1, 6))],
        "spatial": [rng.choice([1, 2, 4, 8]) for _ in range(rng.randint(1, 2))],
        "opts": [o for o in opts if rng.random() < 0.35],
    }


def gen_config(rng):
    kind = rng.choices(["hwpe_mult", "alu", "gemmx", "xdma", "phs", "gemmini", "synth2", "synth4"], [2, 4, 4, 3, 3, 3, 1, 1])[0]
    cfg = {"kind": kind}
    if kind == "alu":
        cfg["streamers"] = [gen_streamer(rng, REG_OPTS) for _ in range(rng.randint(1, 6))]
    elif kind == "gemmx":
        cfg["streamers"] = [gen_streamer(rng, REG_OPTS) for _ in range(5)]
        cfg["mnk"] = [rng.randint(1, 16) for _ in range(3)]
    elif kind == "xdma":
        cfg["streamers"] = [gen_streamer(rng, XDMA_OPTS) for _ in range(2)]
    elif kind == "phs":
        cfg["streamers"] = [gen_streamer(rng, REG_OPTS) for _ in range(rng.randint(1, 4))]
        cfg["switches"] = rng.choice([rng.randint(0, 6), rng.randint(0, 6), rng.randint(7, 24)])
    return cfg


def _opt_objects(names):
    from snaxc.accelerators.streamers import extensions as E

    table = {
        "a": E.HasAddressRemap,
        "b": E.HasBroadcast,
        "c": E.HasChannelMask,
        "bm": E.HasByteMask,
        "transpose": E.TransposeExtension,
        "maxpool": E.MaxPoolExtension,
        "memset": E.MemSetExtension,
        "rescaledown": E.RescaleDownExtension,
        "rescaleup": E.RescaleUpExtension,
        "add": E.AddExtension,
        "addlong": E.AddLongExtension,
    }
    return [table[n]() for n in names]


def build(cfg):
    """JSON description -> accelerator instance of the current tree."""
    from snaxc.accelerators.streamers.streamers import Streamer, StreamerConfiguration, StreamerSystemType, StreamerType

    def sc(system=StreamerSystemType.Regular):
        return StreamerConfiguration(
            [Streamer(StreamerType(s["type"]), s["temporal"], s["spatial"], _opt_objects(s["opts"])) for s in cfg["streamers"]],
            system,
        )

    k = cfg["kind"]
    if k == "hwpe_mult":
        from snaxc.accelerators.snax_hwpe_mult import SNAXHWPEMultAccelerator

        return SNAXHWPEMultAccelerator()
    if k == "gemmini":
        from snaxc.accelerators.gemmini import GemminiAccelerator

        return GemminiAccelerator()
    if k == "alu":
        from snaxc.accelerators.snax_alu import SNAXAluAccelerator

        return SNAXAluAccelerator(sc())
    if k == "gemmx":
        from snaxc.accelerators.snax_gemmx import SNAXGEMMXAccelerator

        return SNAXGEMMXAccelerator(sc(), *cfg["mnk"])
    if k == "xdma":
        from snaxc.accelerators.snax_xdma import SNAXXDMAAccelerator

        return SNAXXDMAAccelerator(sc(StreamerSystemType.DmaExt))
    if k in ("synth2", "synth4"):
        # barrier styles 2 and 4 are used by no accelerator class of the repo: exercised through a synthetic accelerator
        # that only combines the repo's SNAXAccelerator lowering with the repo's SNAXPollingBarrier2 / 4 await lowering
        from snaxc.accelerators.snax import SNAXAccelerator, SNAXPollingBarrier2, SNAXPollingBarrier4
        from snaxc.dialects import accfg

        base = SNAXPollingBarrier2 if k == "synth2" else SNAXPollingBarrier4

        class Synth(SNAXAccelerator, base):
            name = k
            fields = ("A", "B", "C", "D")
            launch_fields = ("launch_a", "launch_b") if k == "synth4" else ("launch_a",)

            def generate_acc_op(self):
                lf = {n: 0x3D0 + i for i, n in enumerate(self.launch_fields)}
                return accfg.AcceleratorOp(self.name, {"A": 0x3C0, "B": 0x3C1, "C": 0x3C2, "D": 0x3C3}, lf, 0x3DF)

            def convert_to_acc_ops(self, op):
                return []

        return Synth()
    if k == "phs":
        from xdsl.dialects.builtin import StringAttr

        from snaxc.accelerators.snax_phs import SNAXPHSAccelerator

        class _PE:  # the constructor only asks for the symbol name and the number of true switches
            properties = {"sym_name": StringAttr("snax_phs")}

            def get_true_switches(self_inner):
                return cfg["switches"]

        class _Spec:
            def get_streamer_config(self_inner):
                return sc()

        return SNAXPHSAccelerator(_PE(), _Spec())
    raise ValueError(k)
