"""Buffer program family (DESIGN.md §4): L3 arguments, L1 allocs, memref.copy (data mover),
linalg.generic (compute), cluster barriers, tagged global ops, scf.for / scf.if.

Statement kinds (JSON):
  {"k":"copy","src":b,"dst":b,"tag":n}   {"k":"gen","ins":[b..],"out":b,"tag":n}   {"k":"sync"}
  {"k":"op","tag":n,"args":[idx..]}      {"k":"dealloc","buf":b}
  {"k":"for","iv":"%iN","lb":r,"ub":r,"step":r,"body":[..]}   {"k":"if","cond":r,"then":[..],"else":[..]}
"""
from __future__ import annotations

E = 4
T1 = f'memref<{E}xi32, "L1">'
T3 = f'memref<{E}xi32, "L3">'
N_ARGS = 3
N_ALLOCS = 3


RESCALE = ("kernel.rescale %x {{input_zp = 0 : i32, output_zp = 0 : i32, multiplier = array<i32: 1140768826>, shift = array<i32: 48>, "
           "max_int = 127 : i32, min_int = -128 : i32, double_round = true}} : ({i}) -> {o}")
#: kind -> (accelerator, input element type, output element type, kernel text); which core runs it is NOT recorded here
STREAM_KINDS = {
    "xdma-add": ("snax_xdma", "i32", "i32", "kernel.add %x, %x : i32, i32 -> i32"),
    "xdma-rescale-up": ("snax_xdma", "i8", "i32", RESCALE.format(i="i8", o="i32")),
    "xdma-rescale-down": ("snax_xdma", "i32", "i8", RESCALE.format(i="i32", o="i8")),
    "alu-add": ("snax_alu", "i32", "i32", "kernel.add %x, %x : i32, i32 -> i32"),
    "xdma-plain": ("snax_xdma", "i32", "i32", None),  # all extensions bypassed: a plain transfer without a kernel
    "xdma-mul": ("snax_xdma", "i32", "i32", "kernel.mul %x, %x : i32, i32 -> i32"),
    # a fused region: an extension kernel followed by one that no extension provides (one accelerator op: exactly one core)
    "xdma-fused": ("snax_xdma", "i32", "i32", ("kernel.add %x, %x : i32, i32 -> i32", "kernel.mul %y, %y : i32, i32 -> i32")),  # a kernel no streamer extension provides: compute work
}


#: the three stages a streaming region goes through: unscheduled, scheduled, after layout resolution
STREAM_FORMS = {
    "operation": ("dart.operation", ""),
    "schedule": ("dart.schedule", ", bounds = [8 : index], tiles = [[], []]"),
    "access_pattern": ("dart.access_pattern", ", bounds = [8 : index]"),
}


def stream_text(s):
    text = _stream_text(s)
    name, props = STREAM_FORMS[s.get("form", "operation")]
    return text.replace('"dart.operation"', f'"{name}"').replace('", operandSegmentSizes', f'"{props}, operandSegmentSizes')


def _stream_text(s):
    acc, it, ot, kern = STREAM_KINDS[s["kind"]]
    src, dst = ("%e0" if it == "i32" else "%f0"), ("%e1" if ot == "i32" else "%f1")
    if kern is None:
        return (
            f'"dart.operation"({src}, {dst}) <{{patterns = [affine_map<(d0) -> (d0)>, affine_map<(d0) -> (d0)>], accelerator = "{acc}", operandSegmentSizes = array<i32: 1, 1>}}> ({{\n'
            f"^bb0(%si : !dart.stream<{it}>, %so : !dart.stream<{ot}>):\n  dart.yield %si : !dart.stream<{it}>\n"
            f'}}) {{vtag = {s["tag"]} : i64}} : (memref<8x{it}, "L1">, memref<8x{ot}, "L1">) -> ()'
        )
    if isinstance(kern, tuple):
        k1, k2 = kern
        return (
            f'"dart.operation"({src}, {dst}) <{{patterns = [affine_map<(d0) -> (d0)>, affine_map<(d0) -> (d0)>], accelerator = "{acc}", operandSegmentSizes = array<i32: 1, 1>}}> ({{\n'
            f"^bb0(%si : !dart.stream<{it}>, %so : !dart.stream<{ot}>):\n"
            f'  %sm = "dart.generic"(%si) ({{\n  ^bb1(%x : {it}):\n    %r = {k1}\n    dart.yield %r : {it}\n  }}) : (!dart.stream<{it}>) -> !dart.stream<{it}>\n'
            f'  %sr = "dart.generic"(%sm) ({{\n  ^bb2(%y : {it}):\n    %q = {k2}\n    dart.yield %q : {ot}\n  }}) : (!dart.stream<{it}>) -> !dart.stream<{ot}>\n'
            f"  dart.yield %sr : !dart.stream<{ot}>\n"
            f'}}) {{vtag = {s["tag"]} : i64}} : (memref<8x{it}, "L1">, memref<8x{ot}, "L1">) -> ()'
        )
    return (
        f'"dart.operation"({src}, {dst}) <{{patterns = [affine_map<(d0) -> (d0)>, affine_map<(d0) -> (d0)>], accelerator = "{acc}", operandSegmentSizes = array<i32: 1, 1>}}> ({{\n'
        f"^bb0(%si : !dart.stream<{it}>, %so : !dart.stream<{ot}>):\n"
        f'  %sr = "dart.generic"(%si) ({{\n  ^bb1(%x : {it}):\n    %r = {kern}\n    dart.yield %r : {ot}\n  }}) : (!dart.stream<{it}>) -> !dart.stream<{ot}>\n'
        f"  dart.yield %sr : !dart.stream<{ot}>\n"
        f'}}) {{vtag = {s["tag"]} : i64}} : (memref<8x{it}, "L1">, memref<8x{ot}, "L1">) -> ()'
    )


VIEWS = {"%w0": ("%b0", 0), "%w1": ("%b0", 2), "%w2": ("%b1", 1)}
#: views of views (same two elements as their parent view)
NESTED = {"%y1": "%w1", "%y2": "%w2"}
TS1 = 'memref<2xi32, "L1">'


TIX = f'memref<{E}xindex, "L1">'


def buf_type(b):
    if b.startswith("%ix"):
        return TIX  # an index table (offsets / gather indices): an element type without a fixed bit width
    if b in NESTED:
        return buf_type(NESTED[b])
    if b in VIEWS:
        return f'memref<2xi32, strided<[1], offset: {VIEWS[b][1]}>, "L1">'
    if b == "%s0":
        return TS1
    return T3 if b.startswith("%a") else T1


def default_profile(rng, tier="quick"):
    big = tier == "thorough" and rng.random() < 0.3
    return {
        "max_depth": rng.choice([3, 4]) if big else rng.choice([0, 1, 1, 2, 2, 3]),
        "top_stmts": rng.randint(5, 9) if big else rng.randint(2, 6),
        "w_copy": rng.choice([3, 4, 5]),
        "w_gen": rng.choice([2, 4, 5]),
        "w_sync": rng.choice([0, 0, 1, 2]),
        "w_op": rng.choice([0, 1, 3]),
        "w_for": rng.choice([1, 2, 3]),
        "w_if": rng.choice([0, 0, 1, 2]),
        "w_dealloc": 0,
        "gen2": rng.random() < 0.3,  # generics with two inputs
        "max_stmts": 28 if big else 16,
        "zero_trips": True,
        "nested_loops": True,
        "l3_kernels": False,
        "views": False,
        "streams": False,
    }


class BufGen:
    def __init__(self, rng, p):
        self.r = rng
        self.p = p
        self.n = 0
        self.tag = 0
        self.count = 0
        self.scope: list[str] = []  # loop-carried buffers / buffers picked by a conditional that are visible here

    def bufs(self):
        retired = getattr(self, "retired", ())
        return [f"%a{i}" for i in range(N_ARGS)] + [b for b in (f"%b{i}" for i in range(self.p.get("n_allocs", N_ALLOCS))) if b not in retired]

    def stmts(self, k, depth, ivs, inloop):
        out = []
        mark = len(self.scope)
        for _ in range(k):
            if self.count >= self.p["max_stmts"]:
                break
            out.append(self.stmt(depth, ivs, inloop))
        del self.scope[mark:]
        return out

    def stmt(self, depth, ivs, inloop):
        r, p = self.r, self.p
        deep = depth < p["max_depth"]
        for_ok = deep and (p["nested_loops"] or not inloop)
        kinds = ["copy", "gen", "sync", "op", "for", "if", "dealloc"]
        w = [p["w_copy"], p["w_gen"], p["w_sync"], p["w_op"], p["w_for"] if for_ok else 0, p["w_if"] if deep else 0, p["w_dealloc"]]
        k = r.choices(kinds, w)[0]
        self.count += 1
        self.tag += 1
        if p.get("streams") and k in ("copy", "gen") and r.random() < 0.4:
            kind = r.choice(list(STREAM_KINDS))
            st = {"k": "stream", "kind": kind, "tag": self.tag}
            if p.get("stream_forms"):
                st["form"] = r.choice(list(STREAM_FORMS))  # dispatching may run at any stage of the dart flow
            return st
        small = list(VIEWS) + ["%s0"] + (list(NESTED) if p.get("nested_views") else [])
        if p.get("views") and k in ("copy", "gen") and r.random() < 0.5:
            s, d = r.sample(small, 2)
            if k == "copy":
                return {"k": "copy", "src": s, "dst": d, "tag": self.tag}
            return {"k": "gen", "ins": [s], "out": d, "tag": self.tag}
        extra = (["%sel0"] if p.get("select") else []) + self.scope
        if k == "copy" and p.get("index_tables") and r.random() < p["index_tables"]:
            self.uses_ix = True
            return {"k": "copy", "src": "%ix0", "dst": "%ix1", "tag": self.tag}
        if k == "copy":
            s, d = r.sample(self.bufs() + extra, 2)
            return {"k": "copy", "src": s, "dst": d, "tag": self.tag}
        if k == "gen":
            pool = (self.bufs() if p["l3_kernels"] else self.bufs()[N_ARGS:]) + extra
            nin = 2 if p["gen2"] and r.random() < 0.5 else 1
            picks = r.sample(pool, nin + 1)
            st = {"k": "gen", "ins": picks[:nin], "out": picks[nin], "tag": self.tag}
            if p.get("gather") and r.random() < p["gather"]:
                st["lut"] = r.choice([b for b in self.bufs() + self.scope if b != st["out"]])  # a buffer the kernel body loads from: a local one, an argument, a loop-carried one
            return st
        if k == "sync":
            return {"k": "sync"}
        if k == "op":
            st = {"k": "op", "tag": self.tag, "args": [r.choice(ivs + ["%n0", "%c1"]) for _ in range(r.randint(0, 2))]}
            if p.get("op_reads") and r.random() < p["op_reads"]:
                st["reads"] = [r.choice(self.bufs()[N_ARGS:])]  # an op every core executes and that looks into a local buffer
                if r.random() < 0.3:
                    st["unranked"] = True  # ... handed over as an unranked memref (a print / debug call)
            return st
        if k == "dealloc":
            return {"k": "dealloc", "buf": r.choice(self.bufs()[N_ARGS:])}
        if k == "for":
            self.n += 1
            iv = f"%i{self.n}"
            node = {"k": "for", "iv": iv, "lb": "%c0", "ub": r.choice(["%n0", "%n1", "%n2", "%n0", "%n1", "%c1", "%c2"]), "step": "%c1"}
            if p.get("rotation") and r.random() < p["rotation"]:
                # ping-pong buffers rotated through iter_args: the loop carries (current, next) and yields (next, current);
                # typically the data mover refills "next" while a kernel works on "current"
                cur, nxt = f"%cu{self.n}", f"%nx{self.n}"
                a, b = r.sample(self.bufs()[N_ARGS:], 2)
                node["rot"] = [cur, nxt, a, b]
                self.scope += [cur, nxt]
                head = []
                if r.random() < 0.8:
                    self.tag += 2
                    others = [x for x in self.bufs()[N_ARGS:] if x not in (a, b)]
                    head = [{"k": "copy", "src": r.choice([f"%a{j}" for j in range(N_ARGS)]), "dst": nxt, "tag": self.tag - 1}, {"k": "gen", "ins": [cur], "out": r.choice(others), "tag": self.tag}]
                    r.shuffle(head)
                node["body"] = head + self.stmts(r.randint(0, 2), depth + 1, ivs + [iv], True)
                del self.scope[-2:]
                return node
            if p.get("loop_allocs") and r.random() < p["loop_allocs"]:
                # a tile buffer of this loop body: allocated at its head, visible only inside it
                self.loop_bufs = getattr(self, "loop_bufs", 0) + 1
                tile = f"%b{20 + self.loop_bufs}"
                self.scope.append(tile)
                self.tag += 2
                head = [{"k": "alloc", "buf": tile}, {"k": "copy", "src": r.choice([f"%a{j}" for j in range(N_ARGS)]), "dst": tile, "tag": self.tag - 1},
                        {"k": "gen", "ins": [tile], "out": r.choice(self.bufs()[N_ARGS:]), "tag": self.tag}]
                node["body"] = head + self.stmts(r.randint(0, 2), depth + 1, ivs + [iv], True)
                self.scope.remove(tile)
                return node
            node["body"] = self.stmts(r.randint(1, 3), depth + 1, ivs + [iv], True)
            if p.get("while_loops") and r.random() < p["while_loops"]:
                node["as_while"] = True  # the same counted loop written as scf.while
            return node
        if p.get("exec_region") and r.random() < p["exec_region"]:
            # scf.execute_region with unstructured control flow inside: entry -> (cond ? bb1 : bb2); bb1 -> bb2; bb2 -> yield
            self.xr = getattr(self, "xr", 0) + 1
            return {"k": "xr", "n": self.xr, "cond": r.choice(["%p0", "%p1"]), "entry": self.stmts(r.randint(0, 1), depth + 1, ivs, inloop), "b1": self.stmts(r.randint(1, 2), depth + 1, ivs, inloop), "b2": self.stmts(r.randint(1, 2), depth + 1, ivs, inloop)}
        node = {"k": "if", "cond": r.choice(["%p0", "%p1"])}
        node["then"] = self.stmts(r.randint(1, 2), depth + 1, ivs, inloop)
        node["else"] = self.stmts(r.randint(0, 2), depth + 1, ivs, inloop)
        if p.get("pick") and r.random() < p["pick"]:
            # the conditional hands one of two local buffers on under a new name, visible in the rest of this block
            self.n += 1
            name = f"%pk{self.n}"
            node["res"] = [name] + r.sample(self.bufs()[N_ARGS:], 2)
            self.scope.append(name)
            if p.get("retire_picked") and len(self.bufs()) - N_ARGS >= 5:
                # from here on the two buffers are only used under their new name: their life ends with it, and (static
                # allocation) their addresses can be handed out again to buffers that are allocated later
                self.retired = set(getattr(self, "retired", ())) | set(node["res"][1:])
        return node

    def program(self):
        ast = {"body": self.stmts(self.p["top_stmts"], 0, [], False), "views": bool(self.p.get("views")), "streams": bool(self.p.get("streams"))}
        if self.p.get("views") and self.p.get("nested_views"):
            ast["nested_views"] = True
        if self.p.get("views") and self.p.get("reinterpret"):
            ast["view_op"] = "reinterpret_cast"
        if self.p.get("helper"):
            # a private function with a body of its own (its own local buffers), called from @f like any other function
            hb = self.stmts(self.r.randint(1, 4), 0, [], False)
            ast["helper"] = hb
            ast["body"].insert(self.r.randint(0, len(ast["body"])), {"k": "callh"})
        if self.p.get("select"):
            ast["select"] = True  # %sel0 = one of two local buffers, decided at run time
        if self.p.get("n_allocs", N_ALLOCS) != N_ALLOCS:
            ast["n_allocs"] = self.p["n_allocs"]
        if self.p.get("late_allocs"):
            # allocations as top-level statements somewhere before the first use (so that life times end before others start),
            # optionally an explicit dealloc somewhere after the last use
            r = self.r
            body = ast["body"]
            allocs = [f"%b{i}" for i in range(self.p.get("n_allocs", N_ALLOCS))] + (["%s0"] if ast["views"] else [])
            alias = aliases_of(body)
            for b in allocs:
                idx = [i for i, st in enumerate(body) if b in buffers_of(st, alias)]
                if idx and r.random() < self.p.get("p_dealloc", 0.0):
                    body.insert(r.randint(idx[-1] + 1, len(body)), {"k": "dealloc", "buf": b})
                if not idx:
                    ast.setdefault("skip_allocs", []).append(b)  # never used: MiniMallocate cannot handle an alloc without uses
                    continue
                at = idx[0] if r.random() < 0.6 else r.randint(0, idx[0])
                body.insert(at, {"k": "alloc", "buf": b})
        if self.p.get("multiblock"):
            ast["blocks"] = [self.stmts(self.r.randint(1, 3), 0, [], False), self.stmts(self.r.randint(1, 3), 0, [], False)]
            if self.r.random() < 0.5:
                ast["cfg_loop"] = self.r.choice(["%n0", "%n1", "%n2"])  # ^bb1 is the body of a do-while loop written with cf.cond_br
                if self.r.random() < 0.4:
                    ast["cfg_rot"] = True  # ... of a top-tested loop whose header (the block that branches back) is laid out behind the body
        if getattr(self, "uses_ix", False):
            ast["index_tables"] = True
        return ast


def aliases_of(body, acc=None):
    """names that stand for one of several allocations (result of a picking conditional) -> those allocations"""
    acc = {} if acc is None else acc
    for st in body:
        if st.get("res"):
            acc[st["res"][0]] = set(st["res"][1:])
        for key in ("body", "then", "else", "entry", "b1", "b2"):
            aliases_of(st.get(key, []), acc)
    return acc


def buffers_of(st, alias=None):
    """allocations (not views) a statement touches, anywhere inside it."""
    if alias:
        plain = buffers_of(st)
        return {x for b in plain for x in alias.get(b, {b})}
    out = set(st.get("reads", []))
    for key in ("src", "dst", "out", "buf"):
        if key in st:
            out.add(st[key])
    out.update(st.get("ins", []))
    if st.get("lut"):
        out.add(st["lut"])
    out.update(st.get("rot", [])[2:])
    out.update(st.get("res", [])[1:])
    for key in ("body", "then", "else", "entry", "b1", "b2"):
        for x in st.get(key, []):
            out |= buffers_of(x)
    out = {NESTED.get(b, b) for b in out}
    return {VIEWS[b][0] if b in VIEWS else b for b in out}


def alloc_text(b):
    if b == "%s0":
        return [f"%s0 = memref.alloc() {{vsite = 7 : i64}} : {TS1}"]
    return [f"{b} = memref.alloc() {{vsite = {int(b[2:])} : i64}} : {T1}"]


def generic_text(ins, out, tag, lut=None):
    n = len(ins)
    maps = ", ".join(["affine_map<(d0) -> (d0)>"] * (n + 1))
    args = ", ".join(f"%x{j} : i32" for j in range(n + 1))
    instr = ", ".join(ins)
    intys = ", ".join(buf_type(b) for b in ins)
    # lut: the body looks into a buffer it captures (gather / look-up table) instead of getting it as an operand
    body = f"  %lv = memref.load {lut}[%c0] : {buf_type(lut)}\n  linalg.yield %lv : i32" if lut else "  linalg.yield %x0 : i32"
    return (
        f'linalg.generic {{indexing_maps = [{maps}], iterator_types = ["parallel"], doc = "k{tag}"}} '
        f"ins({instr} : {intys}) outs({out} : {buf_type(out)}) {{\n^bb0({args}):\n{body}\n}}"
    )


ARGS = ["%n0", "%n1", "%n2", "%p0", "%p1"]
ARG_TYPES = ["index", "index", "index", "i1", "i1"]


def view_text(ast, w, b, off):
    if ast.get("view_op") == "reinterpret_cast":
        # the same two elements named through a reinterpret_cast of the allocation instead of a subview
        return (f'{w} = "memref.reinterpret_cast"({b}) <{{static_offsets = array<i64: {off}>, static_sizes = array<i64: 2>, static_strides = array<i64: 1>, '
                f'operandSegmentSizes = array<i32: 1, 0, 0, 0>}}> : ({T1}) -> {buf_type(w)}')
    return f"{w} = memref.subview {b}[{off}][2][1] : {T1} to {buf_type(w)}"


def emit(ast) -> str:
    L: list[str] = []

    def e(ind, s):
        L.append("  " * ind + s)

    def nested_of(ind, w):
        if ast.get("nested_views"):
            for y, parent in NESTED.items():
                if parent == w:
                    e(ind, f"{y} = memref.subview {w}[0][2][1] : {buf_type(w)} to {buf_type(y)}")

    def stmts(ind, body):
        for s in body:
            k = s["k"]
            if k == "copy":
                e(ind, f'"memref.copy"({s["src"]}, {s["dst"]}) {{vtag = {s["tag"]} : i64}} : ({buf_type(s["src"])}, {buf_type(s["dst"])}) -> ()')
            elif k == "gen":
                e(ind, generic_text(s["ins"], s["out"], s["tag"], s.get("lut")))
            elif k == "stream":
                e(ind, stream_text(s))
            elif k == "sync":
                e(ind, '"snax.cluster_sync_op"() : () -> ()')
            elif k == "op" and s.get("unranked"):
                b = s["reads"][0]
                e(ind, f'%ur{s["tag"]} = "memref.cast"({b}) : ({buf_type(b)}) -> memref<*xi32, "L1">')
                tys = ", ".join(["index" for _ in s["args"]] + ['memref<*xi32, "L1">'])
                e(ind, f'"test.op"({", ".join(s["args"] + ["%ur" + str(s["tag"])])}) {{vtag = {s["tag"]} : i64}} : ({tys}) -> ()')
            elif k == "op":
                tys = ", ".join(["index" for _ in s["args"]] + [buf_type(b) for b in s.get("reads", [])])
                e(ind, f'"test.op"({", ".join(s["args"] + s.get("reads", []))}) {{vtag = {s["tag"]} : i64}} : ({tys}) -> ()')
            elif k == "dealloc":
                e(ind, f'"memref.dealloc"({s["buf"]}) : ({buf_type(s["buf"])}) -> ()')
            elif k == "alloc":
                for line in alloc_text(s["buf"]):
                    e(ind, line)
                if ast.get("views"):
                    for w, (b, off) in VIEWS.items():
                        if b == s["buf"]:
                            e(ind, view_text(ast, w, b, off))
                            nested_of(ind, w)
            elif k == "for" and s.get("rot"):
                cur, nxt, a, b = s["rot"]
                e(ind, f'%rr{cur[3:]}:2 = scf.for {s["iv"]} = {s["lb"]} to {s["ub"]} step {s["step"]} iter_args({cur} = {a}, {nxt} = {b}) -> ({T1}, {T1}) {{')
                stmts(ind + 1, s["body"])
                e(ind + 1, f"scf.yield {nxt}, {cur} : {T1}, {T1}")
                e(ind, "}")
            elif k == "for" and s.get("as_while"):
                iv = s["iv"]
                e(ind, f'{iv}_end = scf.while ({iv}_a = {s["lb"]}) : (index) -> (index) {{')
                e(ind + 1, f'{iv}_c = arith.cmpi slt, {iv}_a, {s["ub"]} : index')
                e(ind + 1, f"scf.condition({iv}_c) {iv}_a : index")
                e(ind, "} do {")
                e(ind, f"^bb0({iv} : index):")
                stmts(ind + 1, s["body"])
                e(ind + 1, f'{iv}_n = arith.addi {iv}, {s["step"]} : index')
                e(ind + 1, f"scf.yield {iv}_n : index")
                e(ind, "}")
            elif k == "for":
                e(ind, f'scf.for {s["iv"]} = {s["lb"]} to {s["ub"]} step {s["step"]} {{')
                stmts(ind + 1, s["body"])
                e(ind, "}")
            elif k == "if" and s.get("res"):
                name, tb, eb = s["res"]
                e(ind, f'{name} = scf.if {s["cond"]} -> ({T1}) {{')
                stmts(ind + 1, s["then"])
                e(ind + 1, f"scf.yield {tb} : {T1}")
                e(ind, "} else {")
                stmts(ind + 1, s["else"])
                e(ind + 1, f"scf.yield {eb} : {T1}")
                e(ind, "}")
            elif k == "if":
                e(ind, f'scf.if {s["cond"]} {{')
                stmts(ind + 1, s["then"])
                if s["else"]:
                    e(ind, "} else {")
                    stmts(ind + 1, s["else"])
                e(ind, "}")
            elif k == "callh":
                e(ind, f'func.call @helper({", ".join([f"%a{i}" for i in range(N_ARGS)] + ARGS)}) : ({", ".join([T3] * N_ARGS + ARG_TYPES)}) -> ()')
            elif k == "xr":
                n_ = s["n"]
                e(ind, "scf.execute_region {")
                stmts(ind + 1, s["entry"])
                e(ind + 1, f'cf.cond_br {s["cond"]}, ^xa{n_}, ^xb{n_}')
                e(ind, f"^xa{n_}:")
                stmts(ind + 1, s["b1"])
                e(ind + 1, f"cf.br ^xb{n_}")
                e(ind, f"^xb{n_}:")
                stmts(ind + 1, s["b2"])
                e(ind + 1, "scf.yield")
                e(ind, "}")
            else:
                raise ValueError(k)

    e(0, "builtin.module {")
    if ast.get("core_query"):
        e(1, "func.func private @snax_cluster_core_idx() -> i32")
    sig = ", ".join([f"%a{i} : {T3}" for i in range(N_ARGS)] + [f"{a} : {t}" for a, t in zip(ARGS, ARG_TYPES)])
    e(1, f"func.func @f({sig}) {{")
    for c in range(3):
        e(2, f"%c{c} = arith.constant {c} : index")
    if ast.get("core_query"):
        # the function already asks for its core id, for something that has nothing to do with dispatching
        e(2, "%cid = func.call @snax_cluster_core_idx() : () -> i32")
    late = {st["buf"] for st in ast["body"] if st["k"] == "alloc"} | set(ast.get("skip_allocs", []))
    for i in range(ast.get("n_allocs", N_ALLOCS)):
        if f"%b{i}" not in late:
            e(2, f"%b{i} = memref.alloc() {{vsite = {i} : i64}} : {T1}")
    if ast.get("index_tables"):
        e(2, f"%ix0 = memref.alloc() {{vsite = 70 : i64}} : {TIX}")
        e(2, f"%ix1 = memref.alloc() {{vsite = 71 : i64}} : {TIX}")
    if ast.get("select"):
        e(2, f"%sel0 = arith.select %p1, %b0, %b1 : {T1}")
    if ast.get("streams"):
        for nm, ty in (("%e0", "i32"), ("%e1", "i32"), ("%f0", "i8"), ("%f1", "i8")):
            e(2, f'{nm} = memref.alloc() {{vsite = {20 + ord(nm[1]) + int(nm[2])} : i64}} : memref<8x{ty}, "L1">')
    if ast.get("views"):
        for w, (b, off) in VIEWS.items():
            if b not in late:
                e(2, view_text(ast, w, b, off))
                nested_of(2, w)
        if "%s0" not in late:
            e(2, f"%s0 = memref.alloc() {{vsite = 7 : i64}} : {TS1}")
    stmts(2, ast["body"])
    if ast.get("blocks") and ast.get("cfg_loop") and ast.get("cfg_rot"):
        # entry -> hdr(0); bb1(k) -> hdr(k + 1); hdr(j) -> (j < n ? bb1(j) : bb2); bb2 -> return
        b1, b2 = ast["blocks"]
        e(2, "cf.br ^hdr(%c0 : index)")
        e(1, "^bb1(%cfk : index):")
        stmts(2, b1)
        e(2, "%cfk1 = arith.addi %cfk, %c1 : index")
        e(2, "cf.br ^hdr(%cfk1 : index)")
        e(1, "^hdr(%cfj : index):")
        e(2, f'%cfc = arith.cmpi slt, %cfj, {ast["cfg_loop"]} : index')
        e(2, "cf.cond_br %cfc, ^bb1(%cfj : index), ^bb2")
        e(1, "^bb2:")
        stmts(2, b2)
    elif ast.get("blocks") and ast.get("cfg_loop"):
        # entry -> bb1(0); bb1(k) -> (k + 1 < n ? bb1(k + 1) : bb2); bb2 -> return
        b1, b2 = ast["blocks"]
        e(2, "cf.br ^bb1(%c0 : index)")
        e(1, "^bb1(%cfk : index):")
        stmts(2, b1)
        e(2, "%cfk1 = arith.addi %cfk, %c1 : index")
        e(2, f'%cfc = arith.cmpi slt, %cfk1, {ast["cfg_loop"]} : index')
        e(2, "cf.cond_br %cfc, ^bb1(%cfk1 : index), ^bb2")
        e(1, "^bb2:")
        stmts(2, b2)
    elif ast.get("blocks"):
        # unstructured control flow: entry -> (p0 ? bb1 : bb2); bb1 -> bb2; bb2 -> return
        b1, b2 = ast["blocks"]
        e(2, "cf.cond_br %p0, ^bb1, ^bb2")
        e(1, "^bb1:")
        stmts(2, b1)
        e(2, "cf.br ^bb2")
        e(1, "^bb2:")
        stmts(2, b2)
    e(2, "func.return")
    e(1, "}")
    if ast.get("helper") is not None:
        e(1, f"func.func private @helper({sig}) {{")
        for c in range(3):
            e(2, f"%c{c} = arith.constant {c} : index")
        for i in range(ast.get("n_allocs", N_ALLOCS)):
            e(2, f"%b{i} = memref.alloc() {{vsite = {40 + i} : i64}} : {T1}")
        if ast.get("index_tables"):
            e(2, f"%ix0 = memref.alloc() {{vsite = 72 : i64}} : {TIX}")
            e(2, f"%ix1 = memref.alloc() {{vsite = 73 : i64}} : {TIX}")
        if ast.get("streams"):
            for nm, ty in (("%e0", "i32"), ("%e1", "i32"), ("%f0", "i8"), ("%f1", "i8")):
                e(2, f'{nm} = memref.alloc() {{vsite = {60 + ord(nm[1]) + int(nm[2])} : i64}} : memref<8x{ty}, "L1">')
        stmts(2, ast["helper"])
        e(2, "func.return")
        e(1, "}")
    e(0, "}")
    return "\n".join(L)


def gen_env(rng, zero_trips=True, n_cores=None):
    trips = [0, 1, 2, 3] if zero_trips else [1, 2, 3]
    return {
        "n": [rng.choice(trips) for _ in range(3)],
        "b": [rng.randrange(2) for _ in range(2)],
        "cores": n_cores or rng.choice([2, 2, 3, 4]),
        "sched": rng.randrange(1 << 30),
        "burst": rng.choice([0, 1, 2]),
        "stall": rng.random() < 0.7,
    }


def has_kind(body, kind):
    for s in body:
        if s["k"] == kind:
            return True
        for key in ("body", "then", "else", "entry", "b1", "b2"):
            if has_kind(s.get(key, []), kind):
                return True
    return False


def shrink_body(body):
    for i, s in enumerate(body):
        yield body[:i] + body[i + 1 :]
    for i, s in enumerate(body):
        k = s["k"]
        if k == "for" and not s.get("rot"):
            yield body[:i] + s["body"] + body[i + 1 :]
        if k == "if" and not s.get("res"):
            yield body[:i] + s["then"] + body[i + 1 :]
            yield body[:i] + s["else"] + body[i + 1 :]
        if k == "xr":
            yield body[:i] + s["entry"] + s["b1"] + s["b2"] + body[i + 1 :]
            yield body[:i] + s["entry"] + s["b2"] + body[i + 1 :]
        for key in ("body", "then", "else", "entry", "b1", "b2"):
            if s.get(key):
                for nb in shrink_body(s[key]):
                    yield body[:i] + [dict(s, **{key: nb})] + body[i + 1 :]
        if k == "gen" and len(s["ins"]) > 1:
            yield body[:i] + [dict(s, ins=s["ins"][:1])] + body[i + 1 :]
        if k == "for" and s.get("as_while"):
            yield body[:i] + [{kk: vv for kk, vv in s.items() if kk != "as_while"}] + body[i + 1 :]
        if k == "gen" and s.get("lut"):
            yield body[:i] + [{kk: vv for kk, vv in s.items() if kk != "lut"}] + body[i + 1 :]
        if k == "op" and s["args"]:
            yield body[:i] + [dict(s, args=[])] + body[i + 1 :]


def shrink_env(env):
    if env.get("tape"):
        yield dict(env, tape=[])  # "lowest runnable core first" everywhere
    if env.get("stall"):
        yield dict(env, stall=False)
    if env.get("burst"):
        yield dict(env, burst=0)
    if env["cores"] > 2:
        yield dict(env, cores=env["cores"] - 1)
    for key in ("n", "b"):
        for j, v in enumerate(env[key]):
            for smaller in sorted({0, 1, v - 1}):
                if 0 <= smaller < v:
                    nv = list(env[key])
                    nv[j] = smaller
                    yield dict(env, **{key: nv})
    if env.get("tape"):
        # schedule simplification: lowest runnable core from the end backwards
        t = env["tape"]
        for cut in (len(t) // 2, len(t) - 1):
            if 0 <= cut < len(t):
                yield dict(env, tape=t[:cut])
