"""Pipeline-shaped loops (DESIGN.md §4): for { index ops; stage; sync; stage; sync; ... }.

AST: {"nst": n, "tmps": k, "const_bounds": bool, "stages": [[op..]..]} with
op = {"k":"copy"|"gen", "src": b | "ins":[b..], "dst": b, "tag": n}; buffers are
  %sa  - tile i of the L3 input argument (read only, index dependent)
  %so / %so2 - tile i of the L3 output arguments (write only, index dependent)
  %tJ  - L1 temporaries (allocs before the loop)
  %g   - an L1 buffer that is only read in the loop (filled before the loop)
"""
from __future__ import annotations

E = 2
TILES = 16
BIG = f'memref<{E * TILES}xi32, "L3">'
T1 = f'memref<{E}xi32, "L1">'
TS = f'memref<{E}xi32, strided<[1], offset: ?>, "L3">'


TV = f'memref<{E}xi32, strided<[1], offset: 0>, "L1">'


def btype(b):
    if b.endswith("v"):
        return TV  # a view of a temporary, taken in front of the loop
    return TS if b in ("%sa", "%so", "%so2") else T1


def gen_ast(rng):
    nst = rng.choice([2, 2, 3, 3, 3, 4])
    ntmp = nst - 1
    tag = [0]

    def t():
        tag[0] += 1
        return tag[0]

    stages = []
    odd = rng.random() < 0.2  # allow shapes the pass must reject (non-adjacent / multiple uses)
    for s in range(nst):
        ops = []
        src = "%sa" if s == 0 else f"%t{s - 1}"
        dst = "%so" if s == nst - 1 else f"%t{s}"
        if (s in (0, nst - 1) and not (s == nst - 1 and rng.random() < 0.3)) or (s not in (0, nst - 1) and rng.random() < 0.5):
            # (the last stage is usually a copy back; sometimes a kernel writes the result itself)
            ops.append({"k": "copy", "src": src, "dst": dst, "tag": t()})
        else:
            ins = [src]
            if rng.random() < 0.4:
                ins.append("%g")
            op = {"k": "gen", "ins": ins, "dst": dst, "tag": t()}
            if rng.random() < 0.3:
                # the kernel also takes a scalar operand: the index-dependent offset, or a value from outside of the loop
                op["scalar"] = rng.choice(["%off", "%i", "%sta", "%sta"])
            elif rng.random() < 0.15:
                # the body of the kernel uses a value of the enclosing scope directly (not as an operand)
                op["capture"] = rng.choice(["%off", "%i", "%sta"])
            ops.append(op)
        r = rng.random()
        if r < 0.2 and (s > 0 or odd):
            ops.append({"k": "copy", "src": "%sa", "dst": "%so2", "tag": t()})  # index-dependent read-only -> write-only
        elif odd and r < 0.3 and dst != "%so":
            ops.append({"k": "copy", "src": dst, "dst": "%so2", "tag": t()})  # second reader of the produced buffer (must be rejected)
        elif r < 0.35 and s > 0:
            ops.append({"k": "copy", "src": "%g", "dst": "%so2", "tag": t()})  # read-only + write-only buffers
        elif odd and r < 0.6 and s >= 2:
            ops.append({"k": "gen", "ins": [f"%t{s - 2}"], "dst": "%so2", "tag": t()})  # non-adjacent consumer
        stages.append(ops)
    skip = None
    if odd and nst >= 3 and rng.random() < 0.6:
        # a temporary written in stage k and read only in stage k+2 (skip connection): must be rejected by the pass
        k = rng.randrange(0, nst - 2)
        stages[k].append({"k": "copy", "src": "%g", "dst": "%u0", "tag": t()})
        stages[k + 2].append({"k": "gen", "ins": ["%u0"], "dst": "%so2", "tag": t()})
        skip = k
    tail = None
    if rng.random() < 0.12:
        tail = {"tag": t(), "arg": rng.choice(["%off", "%i"])}  # an op behind the last barrier: not the recognised shape
        if rng.random() < 0.5:
            tail["sync"] = True
    alias = None
    if rng.random() < 0.1:
        # the consumer stage reads temporary J through a view of it that was taken in front of the loop
        alias = rng.randrange(ntmp)
        for o in stages[alias + 1]:
            if o["k"] == "copy" and o["src"] == f"%t{alias}":
                o["src"] = f"%t{alias}v"
            elif o["k"] == "gen":
                o["ins"] = [f"%t{alias}v" if b == f"%t{alias}" else b for b in o["ins"]]
    post = None
    if rng.random() < 0.12:
        post = {"tag": t(), "src": f"%t{rng.randrange(ntmp)}"}  # a temporary of the loop is read once more behind the loop
    scratch_views = rng.random() < 0.08  # the temporaries are subviews, taken inside the loop body, of one scratch allocation
    accumulator = None
    if rng.random() < 0.08 and nst >= 2:
        # a running result: %acc is initialised in front of the loop, one stage reads and writes it, the next stage reads it
        k = rng.randrange(1, nst) if nst > 2 else 1
        accumulator = k
    alloc_in_loop = rng.random() < 0.08  # the temporaries are allocated inside the loop body (among the index ops)
    lb_shared = rng.random() < 0.15  # the constant that is the lower bound is also used inside the body (when it is 0)
    ring = rng.choice([0, 0, 0, 3, 4])  # the side output goes to a ring of `ring` slots: an arith.remui among the index ops
    same_array = rng.random() < 0.08  # the result of iteration i is stored to tile i+1 of the array the first stage loads from
    alias_inner = alias is not None and rng.random() < 0.5  # ... the view is taken inside the loop body (among the index ops)
    outer = rng.choice([0, 0, 0, 0, 0, 2, 3])  # trip count of an enclosing loop whose body ends with the pipelined loop
    nested_index = rng.random() < 0.08  # the tile offset is computed inside a region of an index op (an scf.if yielding it)
    carried_off = rng.random() < 0.08  # the tile offset is carried through the loop as an iter_arg and advanced among the index ops
    init_acc = rng.random() < 0.08 and accumulator is None  # one buffer is written by two stages: initialised, then accumulated into
    return {"nst": nst, "tmps": ntmp, "skip": skip is not None, "tail": tail, "ring": ring, "post": post, "alias": alias, "lb_shared": lb_shared, "alloc_in_loop": alloc_in_loop and alias is None and post is None and not scratch_views, "scratch_views": scratch_views and alias is None and post is None, "accumulator": accumulator, "same_array": same_array, "alias_inner": alias_inner, "init_acc": init_acc, "carried_off": carried_off, "nested_index": nested_index and not carried_off, "outer": outer, "const_bounds": rng.random() < 0.75, "dyn_ub": rng.random() < 0.5, "stages": stages}


TVS = 'memref<' + str(E) + 'xi32, strided<[1], offset: {off}>, "L1">'


def op_text(o, view_tmps=0):
    plain = globals()["btype"]

    def btype(b):
        if view_tmps and b.startswith("%t") and b[2:].isdigit():
            return TVS.format(off=E * int(b[2:]))
        return plain(b)

    if o["k"] == "copy":
        return f'"memref.copy"({o["src"]}, {o["dst"]}) {{vtag = {o["tag"]} : i64}} : ({btype(o["src"])}, {btype(o["dst"])}) -> ()'
    n = len(o["ins"])
    sc = o.get("scalar")
    maps = ", ".join(["affine_map<(d0) -> (d0)>"] * n + (["affine_map<(d0) -> ()>"] if sc else []) + ["affine_map<(d0) -> (d0)>"])
    args = ", ".join([f"%x{j} : i32" for j in range(n)] + (["%xs : index"] if sc else []) + [f"%x{n} : i32"])
    ins = list(o["ins"]) + ([sc] if sc else [])
    tys = [btype(b) for b in o["ins"]] + (["index"] if sc else [])
    return (
        f'linalg.generic {{indexing_maps = [{maps}], iterator_types = ["parallel"], doc = "k{o["tag"]}"}} '
        f'ins({", ".join(ins)} : {", ".join(tys)}) outs({o["dst"]} : {btype(o["dst"])}) {{\n^bb0({args}):\n'
        + (f"  %acc_new = arith.addi %x0, %x{n} : i32\n  linalg.yield %acc_new : i32\n}}" if o.get("accum")
           else f"  %cap = arith.index_cast {o['capture']} : index to i32\n  %capr = arith.addi %x0, %cap : i32\n  linalg.yield %capr : i32\n}}" if o.get("capture")
           else "  linalg.yield %x0 : i32\n}")
    )


def emit(ast, env=None) -> str:
    L = []
    e = L.append
    e("builtin.module {")
    e(f"  func.func @f(%A : {BIG}, %O : {BIG}, %O2 : {BIG}, %G : {T1}, %P : {T1}, %lba : index, %uba : index, %sta : index) {{")
    e(f"    %cE = arith.constant {E} : index")
    if ast.get("ring"):
        e(f'    %cR = arith.constant {ast["ring"]} : index')
    if ast["const_bounds"]:
        assert env is not None
        e(f'    %lb = arith.constant {env["lb"]} : index')
        e(f'    %ub = arith.constant {env["ub"]} : index')
        e(f'    %st = arith.constant {env["step"]} : index')
        lb, ub, st = "%lb", "%ub", "%st"
    elif ast.get("dyn_ub"):
        # the common run-time sized loop: from 0 in steps of 1 up to a bound that is only known at run time
        e("    %lb = arith.constant 0 : index")
        e("    %st = arith.constant 1 : index")
        lb, ub, st = "%lb", "%uba", "%st"
    else:
        lb, ub, st = "%lba", "%uba", "%sta"
    if ast.get("scratch_views"):
        e(f'    %scratch = memref.alloc() {{vsite = 50 : i64}} : memref<{E * ast["tmps"]}xi32, "L1">')
    elif not ast.get("alloc_in_loop"):
        for t in range(ast["tmps"]):
            e(f"    %t{t} = memref.alloc() {{vsite = {t} : i64}} : {T1}")
    if ast.get("accumulator") is not None:
        e(f"    %acc = memref.alloc() {{vsite = 60 : i64}} : {T1}")
        e(f'    "memref.copy"(%G, %acc) {{vtag = 98 : i64}} : ({T1}, {T1}) -> ()')
    if ast.get("init_acc"):
        e(f"    %acc2 = memref.alloc() {{vsite = 61 : i64}} : {T1}")
    if ast.get("alias") is not None and not ast.get("alias_inner"):
        j = ast["alias"]
        e(f"    %t{j}v = memref.subview %t{j}[0][{E}][1] : {T1} to {TV}")
    if ast.get("skip"):
        e(f"    %u0 = memref.alloc() {{vsite = 8 : i64}} : {T1}")
    e(f"    %g = memref.alloc() {{vsite = 9 : i64}} : {T1}")
    e(f'    "memref.copy"(%G, %g) {{vtag = 99 : i64}} : ({T1}, {T1}) -> ()')
    e('    "snax.cluster_sync_op"() : () -> ()')
    if ast.get("outer"):
        # the pipelined loop is the last operation in the body of an enclosing loop
        e("    %oc0 = arith.constant 0 : index")
        e("    %oc1 = arith.constant 1 : index")
        e(f'    %ocn = arith.constant {ast["outer"]} : index')
        e("    scf.for %oi = %oc0 to %ocn step %oc1 {")
    if ast.get("carried_off"):
        e("    %off_init = arith.constant 0 : index")
        e(f"    %off_end = scf.for %i = {lb} to {ub} step {st} iter_args(%off = %off_init) -> (index) {{")
        e("      %off_next = arith.addi %off, %cE : index")
    else:
        e(f"    scf.for %i = {lb} to {ub} step {st} {{")
    if ast.get("carried_off"):
        pass
    elif ast.get("nested_index"):
        e("      %ni_c = arith.cmpi eq, %i, %i : index")
        e("      %off = scf.if %ni_c -> (index) {")
        e("        %ni_a = arith.muli %i, %cE : index")
        e("        scf.yield %ni_a : index")
        e("      } else {")
        e("        scf.yield %i : index")
        e("      }")
    elif ast.get("lb_shared") and ast["const_bounds"] and env["lb"] == 0:
        e("      %off0 = arith.muli %i, %cE : index")
        e("      %off = arith.addi %off0, %lb : index")
    else:
        e("      %off = arith.muli %i, %cE : index")
    if ast.get("scratch_views"):
        for t in range(ast["tmps"]):
            e(f'      %t{t} = memref.subview %scratch[{E * t}][{E}][1] : memref<{E * ast["tmps"]}xi32, "L1"> to {TVS.format(off=E * t)}')
    if ast.get("alloc_in_loop"):
        for t in range(ast["tmps"]):
            e(f"      %t{t} = memref.alloc() {{vsite = {t} : i64}} : {T1}")
    if ast.get("alias") is not None and ast.get("alias_inner") and not ast.get("alloc_in_loop") and not ast.get("scratch_views"):
        j = ast["alias"]
        e(f"      %t{j}v = memref.subview %t{j}[0][{E}][1] : {T1} to {TV}")
    e(f"      %sa = memref.subview %A[%off][{E}][1] : {BIG} to {TS}")
    if ast.get("same_array"):
        e("      %offn = arith.addi %off, %cE : index")
        e(f"      %so = memref.subview %A[%offn][{E}][1] : {BIG} to {TS}")
    else:
        e(f"      %so = memref.subview %O[%off][{E}][1] : {BIG} to {TS}")
    if ast.get("ring"):
        e(f'      %slot = arith.remui %i, %cR : index')
        e("      %off2 = arith.muli %slot, %cE : index")
        e(f"      %so2 = memref.subview %O2[%off2][{E}][1] : {BIG} to {TS}")
    else:
        e(f"      %so2 = memref.subview %O2[%off][{E}][1] : {BIG} to {TS}")
    views = ast.get("scratch_views")
    for si, ops in enumerate(ast["stages"]):
        for o in ops:
            e("      " + op_text(o, ast["tmps"] if views else 0))
        if ast.get("init_acc"):
            if si == 0:
                e("      " + op_text({"k": "copy", "src": "%sa", "dst": "%acc2", "tag": 94}))
            elif si == 1:
                e("      " + op_text({"k": "gen", "ins": ["%g"], "dst": "%acc2", "tag": 95, "accum": True}))
        if ast.get("accumulator") is not None:
            k = ast["accumulator"]
            if si == k - 1:
                # reads and writes the running result
                e("      " + op_text({"k": "gen", "ins": ["%sa"], "dst": "%acc", "tag": 96, "accum": True}))
            elif si == k:
                e("      " + op_text({"k": "copy", "src": "%acc", "dst": "%so2", "tag": 97}))
        e('      "snax.cluster_sync_op"() : () -> ()')
    if ast.get("tail"):
        e(f'      "test.op"({ast["tail"]["arg"]}) {{vtag = {ast["tail"]["tag"]} : i64}} : (index) -> ()')
        if ast["tail"].get("sync"):
            e('      "snax.cluster_sync_op"() : () -> ()')  # ... itself followed by a barrier
    if ast.get("carried_off"):
        e("      scf.yield %off_next : index")
    e("    }")
    if ast.get("outer"):
        e("    }")
    if ast.get("init_acc") and not ast.get("post"):
        e(f'    "memref.copy"(%acc2, %P) {{vtag = 93 : i64}} : ({T1}, {T1}) -> ()')  # the running result is read behind the loop
    if ast.get("post"):
        e(f'    "memref.copy"({ast["post"]["src"]}, %P) {{vtag = {ast["post"]["tag"]} : i64}} : ({T1}, {T1}) -> ()')
    e("    func.return")
    e("  }")
    e("}")
    return "\n".join(L)


def gen_env(rng, nst):
    lb = rng.choice([0, 0, 0, 0, 0, 0, 1, 3])
    step = rng.choice([1, 1, 1, 1, 1, 1, 2])
    trips = rng.choice([0, 1, 2, nst - 2 if nst > 2 else 1, nst - 1, nst, nst + 1, 5, 6])
    ub = lb + trips * step - (rng.randrange(step) if trips and step > 1 else 0)
    return {
        "lb": lb,
        "ub": max(ub, 0),
        "step": step,
        "cores": rng.choice([2, 2, 3]),
        "sched": rng.randrange(1 << 30),
        "burst": rng.choice([0, 1]),
        "stall": rng.random() < 0.7,
    }


def trips_of(env):
    return max(0, -(-(env["ub"] - env["lb"]) // env["step"]))


def shrink_ast(ast):
    if ast.get("ring"):
        yield dict(ast, ring=0)
    if ast.get("tail"):
        yield dict(ast, tail=None)
    if ast.get("post"):
        yield dict(ast, post=None)
    if ast.get("lb_shared"):
        yield dict(ast, lb_shared=False)
    if ast.get("alloc_in_loop"):
        yield dict(ast, alloc_in_loop=False)
    if ast.get("scratch_views"):
        yield dict(ast, scratch_views=False)
    if ast.get("accumulator") is not None:
        yield dict(ast, accumulator=None)
    if ast.get("outer"):
        yield dict(ast, outer=0)
    for flag in ("same_array", "alias_inner", "init_acc", "carried_off", "nested_index"):
        if ast.get(flag):
            yield dict(ast, **{flag: False})
    for s_, ops_ in enumerate(ast["stages"]):
        for j_, o_ in enumerate(ops_):
            if o_.get("scalar") or o_.get("capture"):
                ns_ = [list(x) for x in ast["stages"]]
                ns_[s_][j_] = {k_: v_ for k_, v_ in o_.items() if k_ not in ("scalar", "capture")}
                yield dict(ast, stages=ns_)
    for s, ops in enumerate(ast["stages"]):
        if len(ops) > 1:
            for j in range(1, len(ops)):
                ns = [list(x) for x in ast["stages"]]
                del ns[s][j]
                yield dict(ast, stages=ns)
        for j, o in enumerate(ops):
            if o["k"] == "gen":
                ns = [list(x) for x in ast["stages"]]
                ns[s][j] = {"k": "copy", "src": o["ins"][0], "dst": o["dst"], "tag": o["tag"]}
                yield dict(ast, stages=ns)


def shrink_env(env):
    if env.get("tape"):
        yield dict(env, tape=[])  # "lowest runnable core first" everywhere
        t = env["tape"]
        for cut in (len(t) // 2, len(t) - 1):
            if 0 < cut < len(t):
                yield dict(env, tape=t[:cut])
    if env.get("stall"):
        yield dict(env, stall=False)
    if env.get("burst"):
        yield dict(env, burst=0)
    if env["cores"] > 2:
        yield dict(env, cores=2)
    if env["step"] > 1:
        yield dict(env, step=1)
    if env["lb"] > 0:
        yield dict(env, lb=0, ub=max(0, env["ub"] - env["lb"]))
    if env["ub"] > env["lb"]:
        yield dict(env, ub=env["ub"] - 1)
