"""Generator-based interpreter over xDSL IR objects (DESIGN.md §3.1).

A *core* is a Python generator; every `yield` is one atomic action that the scheduler in
cluster.py interleaves with the other cores.  Handlers are looked up by op class; a handler is
either a plain function `(machine, op, vals, core) -> None | Return` or a generator function
(for ops that contain regions or take several atomic actions).

Integer values are Python ints kept in signed two's-complement form of the type's width
(index = 64 bit).  An op outside the table raises HarnessError (exit 2), never a violation.
"""
from __future__ import annotations

import inspect

from . import compat

compat.install()

from xdsl.dialects import arith, builtin, cf, func, memref, scf  # noqa: E402
from xdsl.dialects.builtin import IndexType, IntegerType  # noqa: E402
from xdsl.ir import Block, BlockArgument, Operation, SSAValue  # noqa: E402


class Violation(Exception):
    def __init__(self, oracle: str, message: str, **details):
        super().__init__(f"{oracle}: {message}")
        self.oracle = oracle
        self.message = message
        self.details = details


class HarnessError(Exception):
    pass


class StepLimit(Exception):
    pass


class Return:
    """Terminator result: values handed to the parent op."""

    __slots__ = ("kind", "values")

    def __init__(self, kind, values):
        self.kind = kind
        self.values = values


def width_of(t) -> int:
    if isinstance(t, IntegerType):
        return t.width.data
    if isinstance(t, IndexType):
        return 64
    raise HarnessError(f"no integer width for type {t}")


def wrap(v: int, w: int) -> int:
    v &= (1 << w) - 1
    if w > 1 and v >> (w - 1):
        v -= 1 << w
    return v


def unsigned(v: int, w: int) -> int:
    return v & ((1 << w) - 1)


class Core:
    """Per-core execution context."""

    def __init__(self, cid: int):
        self.id = cid
        self.epoch = 0
        self.occ: dict = {}
        self.hist: list = []
        self.loops: list = []  # stack of (for op, iteration value)

    def occurrence(self, key) -> int:
        k = self.occ[key] = self.occ.get(key, 0) + 1
        return k


HANDLERS: dict[type, tuple[bool, object]] = {}


def make_handler(table):
    def handler(*op_types):
        def deco(fn):
            is_gen = inspect.isgeneratorfunction(fn)
            for t in op_types:
                table[t] = (is_gen, fn)
            return fn

        return deco

    return handler


handler = make_handler(HANDLERS)
_TABLES: dict[type, dict] = {}


class Machine:
    """Base machine: control flow + integer arithmetic.  Subclasses add devices."""

    step_limit = 200_000
    #: a use of a never-defined SSA value is recorded here (and raised as a Violation by machines
    #: whose property speaks about it)
    undefined_is_violation = True

    def __init__(self, mod):
        self.mod = mod
        self.funcs = {o.sym_name.data: o for o in mod.walk() if isinstance(o, func.FuncOp)}  # also of nested modules
        self.steps = 0  # executed operations / atomic actions (budget)
        self.now = 0  # simulated clock; jumps when a core blocks on a device (discrete-event)
        t = _TABLES.get(type(self))
        if t is None:
            t = dict(HANDLERS)
            for klass in reversed(type(self).__mro__):
                t.update(klass.__dict__.get("EXTRA", {}))
            _TABLES[type(self)] = t
        self.handlers = t

    # -- helpers
    @property
    def scratch(self):
        d = self.__dict__.get("_scratch")
        if d is None:
            d = self.__dict__["_scratch"] = {}
        return d

    def get(self, vals, v: SSAValue):
        try:
            return vals[v]
        except KeyError:
            owner = v.owner
            name = owner.name if isinstance(owner, Operation) else "block-argument"
            raise Violation("undefined-value", f"use of a value that was never defined on this execution (result of {name})")

    def tick(self):
        self.steps += 1
        self.now += 1
        if self.steps > self.step_limit:
            raise StepLimit(f"step budget {self.step_limit} exhausted")

    # -- execution
    def run_function(self, name: str, args, core: Core):
        f = self.funcs[name]
        blk = f.body.blocks[0]
        if len(args) != len(blk.args):
            raise HarnessError(f"@{name}: {len(blk.args)} arguments expected, {len(args)} given")
        vals = dict(zip(blk.args, args))
        while True:
            r = yield from self.exec_block(blk, vals, core)
            if r is None:
                return []
            if r.kind == "br":  # unstructured control flow between the blocks of the function body
                blk, argvals = r.values
                for a, v in zip(blk.args, argvals):
                    vals[a] = v
                continue
            return r.values

    def exec_block(self, block: Block, vals, core: Core):
        handlers = self.handlers
        op = block.first_op
        while op is not None:
            self.tick()
            h = handlers.get(type(op))
            if h is None:
                h = self.resolve(op)
            if h[0]:
                r = yield from h[1](self, op, vals, core)
            else:
                r = h[1](self, op, vals, core)
            if r is not None:
                return r
            op = op.next_op
        return None

    def resolve(self, op):
        for t in type(op).__mro__:
            if t in self.handlers:
                self.handlers[type(op)] = self.handlers[t]
                return self.handlers[t]
        h = self.by_name(op)
        if h is not None:
            return h
        raise HarnessError(f"unsupported op {op.name}")

    def by_name(self, op):
        return None

    def run_single(self, name: str, args, core: Core | None = None):
        """Run one core to completion, ignoring yields."""
        core = core or Core(0)
        g = self.run_function(name, args, core)
        try:
            while True:
                next(g)
        except StopIteration as s:
            return s.value


# ------------------------------------------------------------------ arith


def _const_value(attr):
    if isinstance(attr, builtin.IntegerAttr):
        w = width_of(attr.type)
        return wrap(attr.value.data, w)
    if isinstance(attr, builtin.FloatAttr):
        return float(attr.value.data)
    raise HarnessError(f"constant {attr}")


@handler(arith.ConstantOp)
def _constant(m, op, vals, core):
    vals[op.result] = _const_value(op.value)


def _bin(fn, signed=True):
    def h(m, op, vals, core):
        w = width_of(op.result.type)
        a, b = m.get(vals, op.lhs), m.get(vals, op.rhs)
        if not signed:
            a, b = unsigned(a, w), unsigned(b, w)
        vals[op.result] = wrap(fn(a, b), w)

    return h


def _divs(a, b):
    if b == 0:
        return 0
    q = abs(a) // abs(b)
    return q if (a < 0) == (b < 0) else -q


def _rems(a, b):
    if b == 0:
        return 0
    return a - b * _divs(a, b)


def _floordiv(a, b):
    return a // b if b else 0


def _ceildiv(a, b):
    return -((-a) // b) if b else 0


for _cls, _fn, _sg in [
    (arith.AddiOp, lambda a, b: a + b, True),
    (arith.SubiOp, lambda a, b: a - b, True),
    (arith.MuliOp, lambda a, b: a * b, True),
    (arith.AndIOp, lambda a, b: a & b, False),
    (arith.OrIOp, lambda a, b: a | b, False),
    (arith.XOrIOp, lambda a, b: a ^ b, False),
    (arith.DivUIOp, lambda a, b: a // b if b else 0, False),
    (arith.RemUIOp, lambda a, b: a % b if b else 0, False),
    (arith.DivSIOp, _divs, True),
    (arith.RemSIOp, _rems, True),
    (arith.FloorDivSIOp, _floordiv, True),
    (arith.CeilDivSIOp, _ceildiv, True),
    (arith.ShLIOp, lambda a, b: a << b if 0 <= b < 64 else 0, False),
    (arith.ShRUIOp, lambda a, b: a >> b if 0 <= b < 64 else 0, False),
    (arith.MinSIOp, min, True),
    (arith.MaxSIOp, max, True),
    (arith.MinUIOp, min, False),
    (arith.MaxUIOp, max, False),
]:
    HANDLERS[_cls] = (False, _bin(_fn, _sg))


@handler(arith.ShRSIOp)
def _shrsi(m, op, vals, core):
    w = width_of(op.result.type)
    a, b = m.get(vals, op.lhs), unsigned(m.get(vals, op.rhs), w)
    vals[op.result] = wrap(a >> min(b, w - 1), w)


_CMP = {
    0: lambda a, b, ua, ub: a == b,
    1: lambda a, b, ua, ub: a != b,
    2: lambda a, b, ua, ub: a < b,
    3: lambda a, b, ua, ub: a <= b,
    4: lambda a, b, ua, ub: a > b,
    5: lambda a, b, ua, ub: a >= b,
    6: lambda a, b, ua, ub: ua < ub,
    7: lambda a, b, ua, ub: ua <= ub,
    8: lambda a, b, ua, ub: ua > ub,
    9: lambda a, b, ua, ub: ua >= ub,
}


@handler(arith.CmpiOp)
def _cmpi(m, op, vals, core):
    w = width_of(op.lhs.type)
    a, b = m.get(vals, op.lhs), m.get(vals, op.rhs)
    p = op.predicate.value.data
    vals[op.result] = int(_CMP[p](a, b, unsigned(a, w), unsigned(b, w)))


@handler(arith.SelectOp)
def _select(m, op, vals, core):
    vals[op.result] = m.get(vals, op.lhs) if m.get(vals, op.cond) else m.get(vals, op.rhs)


@handler(arith.IndexCastOp, arith.ExtSIOp, arith.TruncIOp)
def _cast_signed(m, op, vals, core):
    vals[op.result] = wrap(m.get(vals, op.input), width_of(op.result.type))


@handler(arith.ExtUIOp)
def _extui(m, op, vals, core):
    vals[op.result] = wrap(unsigned(m.get(vals, op.input), width_of(op.input.type)), width_of(op.result.type))


@handler(builtin.UnrealizedConversionCastOp)
def _ucc(m, op, vals, core):
    if len(op.inputs) != len(op.outputs):
        raise HarnessError("n:m unrealized_conversion_cast")
    for i, o in zip(op.inputs, op.outputs):
        v = m.get(vals, i)
        if isinstance(v, int) and isinstance(o.type, (IntegerType, IndexType)):
            v = wrap(v, width_of(o.type))
        vals[o] = v


# ------------------------------------------------------------------ scf / func


@handler(scf.YieldOp)
def _yield(m, op, vals, core):
    return Return("yield", [m.get(vals, o) for o in op.operands])


@handler(scf.ConditionOp)
def _condition(m, op, vals, core):
    return Return("condition", [m.get(vals, o) for o in op.operands])


@handler(func.ReturnOp)
def _return(m, op, vals, core):
    return Return("return", [m.get(vals, o) for o in op.operands])


@handler(scf.ForOp)
def _for(m, op, vals, core):
    lb, ub, st = m.get(vals, op.lb), m.get(vals, op.ub), m.get(vals, op.step)
    if st <= 0:
        raise HarnessError("scf.for with non-positive step")
    carried = [m.get(vals, a) for a in op.iter_args]
    blk = op.body.block
    i = lb
    trips = 0
    m.on_for_enter(op, vals, core, carried)
    while i < ub:
        vals[blk.args[0]] = i
        for a, v in zip(blk.args[1:], carried):
            vals[a] = v
        core.loops.append((op, i))
        m.on_for_head(op, vals, core)
        r = yield from m.exec_block(blk, vals, core)
        core.loops.pop()
        if r is None or r.kind != "yield":
            raise HarnessError("scf.for body without yield")
        carried = r.values
        i += st
        trips += 1
    if trips == 0:
        m.probe("zero-trip-loop")
    for res, v in zip(op.results, carried):
        vals[res] = v
    m.on_for_exit(op, vals, core)


@handler(scf.IfOp)
def _if(m, op, vals, core):
    c = m.get(vals, op.cond)
    reg = op.true_region if c else op.false_region
    m.probe("if-taken" if c else "if-not-taken")
    values = []
    if reg.blocks:
        r = yield from m.exec_block(reg.block, vals, core)
        values = r.values if r is not None else []
    elif op.results:
        raise HarnessError("scf.if with results but empty region")
    for res, v in zip(op.results, values):
        vals[res] = v
    m.on_if_exit(op, vals, core)


# -- a scalar scratch memory (accfg family: configuration values kept in memory).  Machines with a memory model of their
# own override these handlers.


@handler(memref.AllocOp)
def _scratch_alloc(m, op, vals, core):
    vals[op.memref] = ("scratch", id(op))


@handler(memref.LoadOp)
def _scratch_load(m, op, vals, core):
    base = m.get(vals, op.memref)
    key = (base, tuple(m.get(vals, i) for i in op.indices))
    vals[op.res] = m.scratch.get(key, 0)


@handler(memref.StoreOp)
def _scratch_store(m, op, vals, core):
    base = m.get(vals, op.memref)
    m.scratch[(base, tuple(m.get(vals, i) for i in op.indices))] = m.get(vals, op.value)


@handler(scf.IndexSwitchOp)
def _index_switch(m, op, vals, core):
    v = m.get(vals, op.arg)
    cases = [int(c) for c in op.cases.get_values()]
    reg = op.case_regions[cases.index(v)] if v in cases else op.default_region
    m.probe("switch-case" if v in cases else "switch-default")
    r = yield from m.exec_block(reg.block, vals, core)
    for res, x in zip(op.results, r.values if r is not None else []):
        vals[res] = x


@handler(scf.ExecuteRegionOp)
def _execute_region(m, op, vals, core):
    # a region with unstructured control flow between its blocks; left through scf.yield
    blk = op.region.blocks[0]
    while True:
        r = yield from m.exec_block(blk, vals, core)
        if r is None:
            raise HarnessError("scf.execute_region block without terminator")
        if r.kind == "br":
            blk, argvals = r.values
            for a, v in zip(blk.args, argvals):
                vals[a] = v
            continue
        if r.kind != "yield":
            return r
        for res, v in zip(op.results, r.values):
            vals[res] = v
        return None


@handler(scf.WhileOp)
def _while(m, op, vals, core):
    carried = [m.get(vals, a) for a in op.arguments]
    before, after = op.before_region.block, op.after_region.block
    while True:
        for a, v in zip(before.args, carried):
            vals[a] = v
        r = yield from m.exec_block(before, vals, core)
        if r is None or r.kind != "condition":
            raise HarnessError("scf.while before-region without condition")
        cond, rest = r.values[0], r.values[1:]
        if not cond:
            for res, v in zip(op.results, rest):
                vals[res] = v
            return
        for a, v in zip(after.args, rest):
            vals[a] = v
        r = yield from m.exec_block(after, vals, core)
        carried = r.values if r is not None else []


@handler(func.FuncOp)
def _funcop(m, op, vals, core):
    return None


@handler(cf.BranchOp)
def _br(m, op, vals, core):
    return Return("br", (op.successor, [m.get(vals, a) for a in op.arguments]))


@handler(cf.ConditionalBranchOp)
def _condbr(m, op, vals, core):
    if m.get(vals, op.cond):
        return Return("br", (op.then_block, [m.get(vals, a) for a in op.then_arguments]))
    return Return("br", (op.else_block, [m.get(vals, a) for a in op.else_arguments]))


def _noop(self, *a, **k):
    return None


Machine.on_for_enter = _noop
Machine.on_for_head = _noop
Machine.on_for_exit = _noop
Machine.on_if_exit = _noop
Machine.probe = _noop


# ------------------------------------------------------------------ static dominance check


def check_dominance(mod) -> str | None:
    """xDSL's verify() does not check SSA dominance (verified by experiment); this does, for the
    single-block-region IR (func/scf) the anchored passes work on.  Returns a message or None."""

    dom_cache: dict = {}

    def dominators(region):
        """block -> set of blocks that dominate it (regions with several blocks: cf.br / cf.cond_br successors)"""
        key = id(region)
        if key not in dom_cache:
            blocks = list(region.blocks)
            preds = {id(b): [] for b in blocks}
            for b in blocks:
                last = b.last_op
                for succ in getattr(last, "successors", ()) or ():
                    preds[id(succ)].append(b)
            allb = {id(b) for b in blocks}
            dom = {id(b): set(allb) for b in blocks}
            dom[id(blocks[0])] = {id(blocks[0])}
            changed = True
            while changed:
                changed = False
                for b in blocks[1:]:
                    ps = [dom[id(p)] for p in preds[id(b)]]
                    new = ({id(b)} | set.intersection(*ps)) if ps else {id(b)}
                    if new != dom[id(b)]:
                        dom[id(b)], changed = new, True
            dom_cache[key] = dom
        return dom_cache[key]

    def visible_from(op: Operation, val: SSAValue) -> bool:
        # walk up from the using op; the definition must be an earlier op of some enclosing block, an argument of an enclosing
        # block, or live in a block of the same region that dominates the enclosing block
        cur: Operation | None = op
        while cur is not None:
            blk = cur.parent_block()
            if blk is None:
                return False
            dblk = val.owner if isinstance(val, BlockArgument) else (val.owner.parent_block() if isinstance(val.owner, Operation) else None)
            if dblk is blk:
                if isinstance(val, BlockArgument):
                    return True
                # must come strictly before `cur` in blk
                p = cur.prev_op
                while p is not None:
                    if p is val.owner:
                        return True
                    p = p.prev_op
                return False
            region = blk.parent_region()
            if dblk is not None and region is not None and len(region.blocks) > 1 and dblk.parent_region() is region:
                return id(dblk) in dominators(region)[id(blk)]
            cur = blk.parent_op()
        return False

    for op in mod.walk():
        for o in op.operands:
            if not visible_from(op, o):
                d = o.owner.name if isinstance(o.owner, Operation) else "block argument"
                return f"operand of {op.name} (result of {d}) does not dominate its use"
    return None
