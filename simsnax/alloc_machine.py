"""Allocation machine (DESIGN.md §5 C11): one core, memory with an *ownership* shadow.

Interprets what memref-to-snax / snax-allocate emit: snax.alloc (size operand recorded), the llvm struct
construction (undef / insertvalue / inttoptr / load / extractvalue), unrealized_conversion_cast from the
struct to a memref, the runtime allocator call snax_alloc_l1, plus subviews and tagged uses.  A tagged use
touches the first and the last byte of the view it is given."""
from __future__ import annotations

from . import compat

compat.install()

from xdsl.dialects import builtin, func, llvm, memref, test  # noqa: E402
from xdsl.dialects.builtin import IndexType, IntegerType, MemRefType  # noqa: E402

from snaxc.dialects import snax  # noqa: E402

from .interp import HarnessError, Machine, Violation, make_handler, width_of, wrap  # noqa: E402

TABLE: dict = {}
handler = make_handler(TABLE)


class MRef:
    """memref value: base address of its allocation (bytes), element offset / sizes / strides of this view."""

    __slots__ = ("base", "off", "sizes", "strides", "elbytes", "root")

    def __init__(self, base, off, sizes, strides, elbytes, root):
        self.base, self.off, self.sizes, self.strides, self.elbytes, self.root = base, off, tuple(sizes), tuple(strides), elbytes, root

    def span(self):
        lo = self.off
        hi = self.off + sum((n - 1) * s for n, s in zip(self.sizes, self.strides))
        return self.base + lo * self.elbytes, self.base + hi * self.elbytes + self.elbytes - 1


class AllocMachine(Machine):
    EXTRA = TABLE

    def __init__(self, mod, rt_base=0x10000000, rt_slack=0):
        super().__init__(mod)
        self.events: list = []  # ("alloc", t, addr, size, alignment, site) / ("use", t, lo, hi, root, tag)
        self.snax_allocs: list = []  # (site, size operand value, shapes) as seen before allocation is lowered
        self.pending_size = None
        self.rt_next = rt_base
        self.rt_slack = rt_slack
        self.structs: dict = {}
        self.probes: dict = {}
        self.instances = 0
        self.instance_site: dict = {}  # allocation instance -> source-level site, learnt from its first use with a static site

    def probe(self, name, n=1):
        self.probes[name] = self.probes.get(name, 0) + n


def _site(op):
    a = op.attributes.get("vsite")
    return a.value.data if a is not None else None


@handler(snax.Alloc)
def _snax_alloc(m: AllocMachine, op, vals, core):
    size = m.get(vals, op.size)
    shapes = [m.get(vals, s) for s in op.shapes]
    m.snax_allocs.append((_site(op), size, tuple(shapes), op.alignment.value.data if op.alignment else 1))
    vals[op.result] = {"_unallocated": True, "shapes": shapes}


@handler(llvm.UndefOp)
def _undef(m, op, vals, core):
    vals[op.res] = {}


@handler(llvm.InsertValueOp)
def _insert(m, op, vals, core):
    d = dict(m.get(vals, op.container))
    d[tuple(op.position.get_values())] = m.get(vals, op.value)
    vals[op.res] = d


@handler(llvm.ExtractValueOp)
def _extract(m, op, vals, core):
    d = m.get(vals, op.container)
    vals[op.res] = d[tuple(op.position.get_values())]


@handler(llvm.IntToPtrOp)
def _inttoptr(m: AllocMachine, op, vals, core):
    v = m.get(vals, op.input)
    vals[op.output] = v & 0xFFFFFFFF if isinstance(v, int) else v


@handler(llvm.LoadOp)
def _load(m: AllocMachine, op, vals, core):
    p = m.get(vals, op.ptr)
    vals[op.dereferenced_value] = m.structs[p]


@handler(func.CallOp)
def _call(m: AllocMachine, op, vals, core):
    callee = op.callee.string_value()
    f = m.funcs.get(callee)
    if f is not None and f.body.blocks:
        res = yield from m.run_function(callee, [m.get(vals, o) for o in op.operands], core)
        for r, v in zip(op.res, res):
            vals[r] = v
        m.probe("call-to-module-function")
        return
    if callee != "snax_alloc_l1":
        raise HarnessError(f"call to @{callee} not modelled")
    size, align = (m.get(vals, o) for o in op.operands)
    # the runtime ignores the alignment argument (DynamicAllocs docstring); it hands out bump-allocated blocks
    ptr = m.rt_next + m.rt_slack
    m.rt_next = ptr + size
    handle = ("rt-struct", len(m.structs))
    m.structs[handle] = {(0,): ptr, (1,): ptr}
    m.events.append(("rt-alloc", m.steps, ptr, size, align))
    vals[op.res[0]] = handle


@handler(builtin.UnrealizedConversionCastOp)
def _ucc(m: AllocMachine, op, vals, core):
    v = m.get(vals, op.inputs[0])
    t = op.outputs[0].type
    if isinstance(v, dict) and isinstance(t, MemRefType):
        if v.get("_unallocated"):
            vals[op.outputs[0]] = v  # size-arithmetic runs stop at snax.alloc
            return
        eb = t.get_element_type().size
        rank = len(t.get_shape())
        sizes = [v.get((3, i)) for i in range(rank)]
        if any(s is None for s in sizes):
            raise Violation("descriptor", f"memref descriptor built by the allocator lacks a size: {sizes}")
        strides = layout_strides(t, sizes)
        site = _site(op)
        m.instances += 1  # every executed allocation is an instance of its own, whatever address it got
        vals[op.outputs[0]] = MRef(v[(1,)], v.get((2,), 0) or 0, sizes, strides, eb, ("buf", site, v[(1,)], m.instances))
        m.events.append(("alloc", m.steps, v[(1,)], site))
        return
    if isinstance(v, int) and isinstance(t, (IntegerType, IndexType)):
        vals[op.outputs[0]] = wrap(v, width_of(t))
        return
    vals[op.outputs[0]] = v


def layout_strides(t: MemRefType, sizes):
    from xdsl.dialects.builtin import NoneAttr

    if not isinstance(t.layout, NoneAttr):
        raise HarnessError("only row-major buffers are generated for the placement checks")
    st = [1] * len(sizes)
    for i in range(len(sizes) - 2, -1, -1):
        st[i] = st[i + 1] * sizes[i + 1]
    return st


@handler(memref.SubviewOp)
def _subview(m: AllocMachine, op, vals, core):
    src: MRef = m.get(vals, op.source)

    def mix(dyn, static):
        it = iter(dyn)
        return [m.get(vals, next(it)) if s == memref.DYNAMIC_INDEX else s for s in static.get_values()]

    offs, sizes, strides = mix(op.offsets, op.static_offsets), mix(op.sizes, op.static_sizes), mix(op.strides, op.static_strides)
    off = src.off + sum(o * s for o, s in zip(offs, src.strides))
    vals[op.result] = MRef(src.base, off, sizes, [a * b for a, b in zip(strides, src.strides)], src.elbytes, src.root)
    m.probe("subview")


@handler(memref.ExtractAlignedPointerAsIndexOp)
def _raw_pointer(m, op, vals, core):
    vals[op.aligned_pointer] = m.get(vals, op.source)  # the address of the buffer: whoever gets it touches the buffer
    m.probe("raw-pointer")


@handler(memref.CastOp)
def _memref_cast(m, op, vals, core):
    vals[op.dest] = m.get(vals, op.source)  # same memory, other static type (e.g. unranked)


@handler(memref.DeallocOp)
def _dealloc(m, op, vals, core):
    m.get(vals, op.memref)


@handler(test.TestOp)
def _use(m: AllocMachine, op, vals, core):
    tag = op.attributes["vtag"].value.data
    sites = op.attributes.get("vsites")
    sites = [x.value.data for x in sites.data] if sites is not None else [None] * len(op.operands)
    for o, site in zip(op.operands, sites):
        v = m.get(vals, o)
        if isinstance(v, MRef):
            lo, hi = v.span()
            inst = v.root[3] if len(v.root) > 3 else None
            if site == -1:
                # a use whose buffer is only known at run time (a loop-carried value): the instance the value stands for
                site = m.instance_site.get(inst)
                if site is None:
                    raise HarnessError("use of a loop-carried buffer whose allocation instance was never named")
                m.probe("use-resolved-by-instance")
            elif inst is not None and site is not None and not isinstance(site, list):
                m.instance_site.setdefault(inst, site)
            m.events.append(("use", m.steps, lo, hi, ("buf", site, v.base), tag))
    for r in op.results:
        vals[r] = 0
