"""./check <ID> [--tier quick|thorough] [--seed N] [--workers N] [--cases N] | replay <file> | setup | selftest-*"""
from __future__ import annotations

import argparse
import os
import sys

PIN_HASHSEED = "0"


def _reexec_pinned():
    # interpreter-visible nondeterminism that is not ours is pinned (DESIGN.md §3.3)
    if os.environ.get("PYTHONHASHSEED") is None:
        os.environ["PYTHONHASHSEED"] = PIN_HASHSEED
        os.execv(sys.executable, [sys.executable, "-m", "simsnax.cli", *sys.argv[1:]])


def main(argv=None):
    _reexec_pinned()
    ap = argparse.ArgumentParser(prog="check")
    ap.add_argument("what")
    ap.add_argument("path", nargs="?")
    ap.add_argument("--tier", default=os.environ.get("VERIF_TIER", "quick"), choices=["quick", "thorough"])
    ap.add_argument("--seed", type=int, default=None)
    ap.add_argument("--workers", type=int, default=int(os.environ.get("VERIF_WORKERS", "16")))
    ap.add_argument("--cases", type=int, default=None)
    ap.add_argument("--replay", default=None)
    ap.add_argument("--no-evidence", action="store_true")
    a = ap.parse_args(argv)

    from . import runner

    seed = a.seed
    if seed is None:
        seed = int(os.environ.get("VERIF_SEED", runner.DEFAULT_SEED))

    if a.what == "setup":
        from . import compat

        compat.main()
        print("setup ok: snaxc imports under the shim from", compat.REPO)
        return 0
    if a.what == "replay" or a.replay:
        path = a.replay or a.path
        same, exact, out, doc = runner.replay_file(path)
        if same:
            print(f"VIOLATION property={doc['property']} replay={path}")
            return 1
        print("violation not reproduced on the current tree")
        return 0 if out["status"] != "harness_error" else 2
    if a.what.startswith("selftest"):
        from . import selftest

        return selftest.main(a.what, a)
    return runner.run_check(a.what.upper(), a.tier, seed, a.workers, a.cases, write_evidence=not a.no_evidence)


if __name__ == "__main__":
    sys.exit(main())
