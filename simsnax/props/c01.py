"""C01 - config deduplication never changes what a launch observes (DESIGN.md §5 C01)."""
from __future__ import annotations

from .accfg_common import (
    ASSUMPTIONS,
    REAL,
    STUB,
    G,
    Rejected,
    Violation,
    accelerators_of,
    check_dominance,
    compare_histories,
    compat,
    compile_variant,
    digest_of,
    gen_envs,
    is_zero_fault,
    merge,
    new_outcome,
    run_machine,
    shrink_case,
)

ID = "C01"
BUDGET = {"quick": 5000, "thorough": 100000}
K_ENVS = {"quick": 6, "thorough": 12}
MIN_NONTRIVIAL = {"quick": 200, "thorough": 2000}
RULE = (
    "programs: seeded accfg-family ASTs (see C07) compiled twice by the current tree: reference = accfg-trace-states, subject = "
    "accfg-trace-states,accfg-dedup{hoist=true|false}; both executed on the accfg machine under the same K environments (first fault-free); "
    "histories of launch/await/call/opaque events compared event by event, register snapshots at launches compared on the fields the "
    "reference had written or that were clobbered. non-trivial = dedup changed the IR and >=1 launch executed; distinct = hash of (program, environments)."
)


def gen_case(rng, tier):
    prof = G.default_profile(rng, tier)
    prof["relaunch"] = rng.choice([0, 0, 0.2])
    prof["multiblock"] = rng.choice([0, 0, 0, 0.4])  # a function of several blocks (cf.cond_br / cf.br)
    prof["switches"] = rng.choice([0, 0, 0, 0.3])  # two-way branches written as scf.index_switch
    prof["const_conds"] = rng.random() < 0.3  # conditionals whose condition is a constant (true / false)
    prof["partial"] = rng.choice([0, 0, 0.4])  # setups that only write some of the fields
    prof["local_callee"] = rng.choice([0, 0, 0.5])  # calls to a function of the module that sets up an accelerator itself
    prof["while_loops"] = rng.choice([0, 0, 0, 0.3])  # counted loops written as scf.while
    prof["memory"] = rng.choice([0, 0, 0, 0.4])  # some configuration values are kept in memory
    prof["state_loops"] = rng.choice([0, 0, 0.6])  # hand-threaded loops that already carry an accelerator's state ...
    prof["head_launch"] = rng.choice([0, 0.5])  # ... and first launch the configuration they were entered with
    G.classic(rng, prof)
    ast = G.AccfgGen(rng, prof).program()
    return {"ast": ast, "envs": gen_envs(rng, K_ENVS[tier]), "hoist": rng.random() < 0.7}


def pipelines(case):
    ref = "accfg-trace-states"
    sub = ref + ",accfg-dedup" + ("" if case["hoist"] else "{hoist=false}")
    return ref, sub


def execute(case):
    out = new_outcome()
    src = G.emit(case["ast"])
    ref_spec, sub_spec = pipelines(case)
    try:
        accs = accelerators_of(compile_variant(src, None))
        P = compile_variant(src, ref_spec)
        D = compile_variant(src, sub_spec)
    except Rejected as r:
        out["status"] = "rejected"
        out["rejected"] = f"{r.stage}:{r.cls}"
        return out
    changed = compat.text(P) != compat.text(D)
    dom = check_dominance(D)
    if dom:
        out.update(status="violation", oracle="dominance", message="after accfg-dedup: " + dom)
        return out
    digests = []
    launches = 0
    for i, env in enumerate(case["envs"]):
        out["runs"] += 2
        out["zero_fault_runs"] += 2 * is_zero_fault(env)
        try:
            mp = run_machine(P, env, accs, "ref")
        except Violation as v:
            # the reference itself uses an undefined value: the generator's fault, not the pass's
            raise RuntimeError(f"reference run raised {v}")
        try:
            md = run_machine(D, env, accs, "sub")
        except Violation as v:
            out.update(status="violation", oracle=v.oracle, message=v.message, env_index=i)
            return out
        d = compare_histories(mp.hist, md.hist)
        if d:
            out.update(status="violation", oracle="launch-history", message=d, env_index=i)
            return out
        out["steps"] += mp.steps + md.steps
        merge(out["probes"], md.probes)
        merge(out["faults"], md.faults)
        launches += sum(1 for h in mp.hist if h[0] == "launch")
        digests.append(digest_of([(h[0], h[1]) for h in md.hist], md.steps))
    if changed:
        out["probes"]["dedup-changed-ir"] = 1
    out["nontrivial"] = bool(changed and launches)
    out["digest"] = digest_of(digests)
    return out


def _guarded_pull(original):
    """Counterfactual for attributing KF-C01-1: PullSetupOpsOutOfLoops only for loops that are known to iterate at least once
    (constant bounds with ub > lb)."""
    from xdsl.dialects import arith, builtin, scf

    def match_and_rewrite(self, op, rewriter):
        loop = op.parent_op()
        if isinstance(loop, scf.ForOp):
            vals = []
            for b in (loop.lb, loop.ub):
                o = b.owner
                vals.append(o.value.value.data if isinstance(o, arith.ConstantOp) and isinstance(o.value, builtin.IntegerAttr) else None)
            if vals[0] is None or vals[1] is None or vals[1] <= vals[0]:
                return
        return original(self, op, rewriter)

    return match_and_rewrite


def _kf_c01_1(case, outcome):
    """the violation disappears when setup fields are only pulled out of loops that are known to run (and only then it is this
    finding); the program must have a setup that does not write every field - otherwise every launch re-writes everything"""
    if outcome.get("oracle") != "launch-history" or not _has_partial(case["ast"]["body"] + [x for b in case["ast"].get("blocks", []) for x in b]):
        return False
    # ... and in the failing environment some loop really does not iterate
    env = case["envs"][outcome.get("env_index") or 0]
    src = G.emit(case["ast"])
    P = compile_variant(src, pipelines(case)[0])
    if not run_machine(P, env, accelerators_of(compile_variant(src, None)), "ref").probes.get("zero-trip-loop"):
        return False
    from snaxc.transforms.accfg_dedup import PullSetupOpsOutOfLoops

    orig = PullSetupOpsOutOfLoops.match_and_rewrite
    PullSetupOpsOutOfLoops.match_and_rewrite = _guarded_pull(getattr(orig, "__wrapped__", orig))
    try:
        again = execute(case)
    finally:
        PullSetupOpsOutOfLoops.match_and_rewrite = orig
    return again["status"] == "ok"


def _has_partial(body):
    for st in body:
        if st.get("omit"):
            return True
        if any(_has_partial(st.get(k, [])) for k in ("body", "then", "else", "gap")):
            return True
    return False


TRIGGERS = {"setup_fields_pulled_out_of_a_loop_that_does_not_run": _kf_c01_1}


def shrink(case):
    yield from shrink_case(case)
    if case["hoist"]:
        yield dict(case, hoist=False)


def sample_of(case):
    return {"program": G.emit(case["ast"]), "environments": case["envs"][:2], "pipelines": pipelines(case)}


META = {"real": REAL, "stub": STUB, "assumptions": ASSUMPTIONS, "interleavings": "single core: 1"}
