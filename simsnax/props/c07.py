"""C07 - assumed accelerator state is always a subset of the real state (DESIGN.md §5 C07)."""
from __future__ import annotations

from .accfg_common import *  # noqa: F401,F403
from .accfg_common import (
    ASSUMPTIONS,
    REAL,
    STUB,
    G,
    Rejected,
    Violation,
    accelerators_of,
    compat,
    compile_variant,
    digest_of,
    gen_envs,
    is_zero_fault,
    merge,
    new_outcome,
    run_machine,
    shrink_case,
)

ID = "C07"
PIPELINE = "accfg-trace-states"
BUDGET = {"quick": 6000, "thorough": 120000}
K_ENVS = {"quick": 6, "thorough": 12}
RULE = (
    "programs: seeded accfg-family ASTs (full-field setup+launch+await, calls with none/full/no effects annotation, "
    "opaque ops, pure i32 arithmetic, scf.for with dynamic lb/ub/step and loop-carried values, scf.if; nesting<=3, <=24 statements, "
    "1-2 accelerators x 2-6 fields) run through accfg-trace-states of the current tree; each traced program is executed under K "
    "environments (argument values, trip counts 0..4 and 9, branch outcomes, clobber faults, latencies), the first fault-free. "
    "non-trivial = tracing changed the IR and >=1 state claim was checked against the machine; distinct = by hash of (program text, environment)."
)
MIN_NONTRIVIAL = {"quick": 200, "thorough": 2000}


def gen_case(rng, tier):
    prof = G.default_profile(rng, tier)
    # clobbers nested in control flow without any setup are generated on purpose
    if rng.random() < 0.3:
        prof["w_call"] = max(prof["w_call"], 2)
    prof["prethread"] = rng.choice([0, 0, 0.3, 0.7])  # pre-existing partial threading
    prof["stale_links"] = rng.choice([0, 0, 0.5])
    prof["multiblock"] = rng.choice([0, 0, 0.5])  # a function of several blocks (cf.cond_br / cf.br)
    prof["annotated_ifs"] = rng.choice([0, 0, 0.4])  # conditionals that carry accfg.effects = full themselves
    prof["switches"] = rng.choice([0, 0, 0.4])  # two-way branches written as scf.index_switch
    prof["const_conds"] = rng.random() < 0.3  # conditionals whose condition is a constant (true / false)
    prof["partial"] = rng.choice([0, 0, 0.4])  # setups that only write some of the fields
    prof["local_callee"] = rng.choice([0, 0, 0.5])  # calls to a function of the module that sets up an accelerator itself
    prof["while_loops"] = rng.choice([0, 0, 0.4])
    prof["state_loops"] = rng.choice([0, 0, 0.6])  # hand-threaded loops that already carry an accelerator's state  # counted loops written as scf.while  # ... some of it stale (something was inserted after the IR had been threaded)
    G.classic(rng, prof)
    ast = G.AccfgGen(rng, prof).program()
    return {"ast": ast, "envs": gen_envs(rng, K_ENVS[tier]), "pipeline": PIPELINE}


def execute(case):
    out = new_outcome()
    src = G.emit(case["ast"])
    try:
        ref0 = compile_variant(src, None)
        accs = accelerators_of(ref0)
        before = compat.text(ref0)
        P = compile_variant(src, case["pipeline"])
    except Rejected as r:
        out["status"] = "rejected"
        out["rejected"] = f"{r.stage}:{r.cls}"
        return out
    changed = compat.text(P) != before
    digests = []
    cache: dict = {}
    for i, env in enumerate(case["envs"]):
        out["runs"] += 1
        out["zero_fault_runs"] += is_zero_fault(env)
        try:
            m = run_machine(P, env, accs, "sub", check_infer=True, check_thread=True, infer_cache=cache)
        except Violation as v:
            out.update(status="violation", oracle=v.oracle, message=v.message, env_index=i)
            return out
        out["steps"] += m.steps
        merge(out["probes"], m.probes)
        merge(out["faults"], m.faults)
        digests.append(digest_of([(h[0], h[1]) for h in m.hist], m.steps))
    out["nontrivial"] = bool(changed and out["probes"].get("state-claims-checked", 0) > 0)
    out["digest"] = digest_of(digests)
    return out


def shrink(case):
    return shrink_case(case)


def sample_of(case):
    return {"program": G.emit(case["ast"]), "environments": case["envs"][:2], "pipeline": case["pipeline"]}


def features(case):
    return {}


META = {"real": REAL, "stub": STUB, "assumptions": ASSUMPTIONS, "interleavings": "single core: 1"}
