"""C05 - DMA lowering of a copy moves every element to its layout position (DESIGN.md §5 C05)."""
from __future__ import annotations

from ..byte_machine import ByteMachine, Desc
from ..interp import Core, Violation
from ..layout import address, all_indices, shape_of, tsl_text
from .accfg_common import Rejected, compile_variant, digest_of, merge, new_outcome

ID = "C05"
BUDGET = {"quick": 6000, "thorough": 120000}
MIN_NONTRIVIAL = {"quick": 300, "thorough": 3000}
EL = {"i8": 1, "i16": 2, "i32": 4, "i64": 8}
#: storage bytes of element types whose width is not a multiple of 8 (FixedBitwidthType.size = ceil(width / 8))
EL_ODD = {"i1": 1, "i4": 1, "i12": 2}
RULE = (
    "cases: one memref.copy (in 15% of the static cases two, the second with the same shape and element type but another tiling, possibly re-using a plain type of the first) between two layouts of equal tile bounds: rank 1-4, tile depth 1-3, bounds 1-4, element widths 8/16/32/64; each "
    "side is row-major (no layout), strided<[..], offset> (permuted dimensions, padding, static or dynamic strides/offset) or #tsl.tsl (any "
    "step order, padding, offset); sub-family 'dyn': dynamic outermost bound of one dimension (any) resolved at run time to 1..4; sub-family "
    "'dyn2' (15%): 1-2 dynamic dimensions anywhere in the memory order, '?' strides of strided layouts holding padded or capacity values at "
    "run time, #tsl.tsl with 0-2 dynamic steps resolved by the contiguity assumption. The function is "
    "lowered by snax-copy-to-dma and executed on a byte-addressed memory with the runtime's 1-D/2-D DMA semantics, seeded base addresses and "
    "seeded row order of 2-D transfers. Online: every DMA byte read lies in the source footprint, every byte written in the destination "
    "footprint; afterwards every logical element sits at the address the destination layout assigns to it (addresses from an independent "
    "layout oracle). Degenerate use of the simulator: one core, no interleaving. non-trivial = >= 2 DMA transfers or a loop nest was "
    "emitted and >= 1 byte moved; distinct = hash of the case."
)


def gen_steps(rng, tb, pad, last=None):
    keys = [(d, k) for d, t in enumerate(tb) for k in range(len(t)) if (d, k) != last]
    rng.shuffle(keys)
    if last is not None:
        keys.append(last)
    steps = {}
    cur = 1
    for d, k in keys:
        steps[(d, k)] = cur
        cur *= tb[d][k]
        if pad and rng.random() < 0.3 and (d, k) != last:
            cur += rng.choice([1, 2, 4])
    return [[steps[(d, k)] for k in range(len(t))] for d, t in enumerate(tb)]


def a8_candidates(tb, steps, dd=0):
    """step x bound of every static stride that has the maximal static step (dimension dd / depth 0 is the dynamic one)."""
    st = [(steps[d][k], tb[d][k]) for d in range(len(tb)) for k in range(len(tb[d])) if (d, k) != (dd, 0)]
    if not st:
        return []
    mx = max(x for x, _ in st)
    return [x * b for x, b in st if x == mx]


def row_major_steps(tb):
    tmp = {}
    cur = 1
    for d in reversed(range(len(tb))):
        for k in reversed(range(len(tb[d]))):
            tmp[(d, k)] = cur
            cur *= tb[d][k]
    return [[tmp[(d, k)] for k in range(len(tb[d]))] for d in range(len(tb))]


def gen_side(rng, tb, dyn, dd=0):
    rank = len(tb)
    shape = shape_of(tb)
    kind = rng.choice(["tsl", "tsl", "none", "strided"])
    side = {"kind": kind, "off": 0, "dynmarks": []}
    if kind == "tsl":
        side["steps"] = gen_steps(rng, tb, pad=rng.random() < 0.5, last=(dd, 0) if dyn else None)
        side["off"] = rng.choice([0, 0, 3])
        if dyn:
            side["dynmarks"].append([dd, 0, "b"])
            # a dynamic ('?') step is only meaningful under A8: it equals (largest static step) x (its bound)
            if rng.random() < 0.5 and a8_candidates(tb, side["steps"], dd).count(side["steps"][dd][0]) >= 1:
                side["dynmarks"].append([dd, 0, "s"])
    elif kind == "none":
        side["steps"] = row_major_steps(tb)  # recomputed from the run-time shape when a dimension is dynamic
    else:
        order = [d for d in range(rank) if not (dyn and d == dd)]
        rng.shuffle(order)
        if dyn:
            order.append(dd)
        cur = 1
        ds = {}
        for d in order:
            ds[d] = cur
            cur *= shape[d]
            if rng.random() < 0.3 and not (dyn and d == dd):
                cur += rng.choice([1, 3])
        tmp = {}
        for d in range(rank):
            c = ds[d]
            for k in reversed(range(len(tb[d]))):
                tmp[(d, k)] = c
                c *= tb[d][k]
        side["steps"] = [[tmp[(d, k)] for k in range(len(tb[d]))] for d in range(rank)]
        side["dimstrides"] = [ds[d] for d in range(rank)]
        side["off"] = rng.choice([0, 0, 3])
        side["dyn_stride"] = [bool(rng.random() < (0.5 if (dyn and d == dd) else 0.15)) for d in range(rank)]
        side["dyn_off"] = rng.random() < 0.3
    return side


# ---------------------------------------------------------------- sub-family 'dyn2': dynamic dimensions anywhere
#
# tb holds the *capacity* of every tile; the outermost tile of each dimension in dyn_dims is '?' in the type and is resolved
# at run time to 1..capacity.  Static steps are laid out for the capacity, so they stay valid (injective) for every run-time
# bound.  Dynamic steps:
#   * row-major (no layout): the run-time shape decides all strides;
#   * strided<[..]>: a '?' stride is whatever the descriptor holds at run time (here: either the value laid out for the
#     capacity, or the smallest value that fits the run-time shape, plus padding);
#   * #tsl.tsl with '?' steps (A8, the contiguity assumption of get_step_ops): going through the strides from the last
#     dimension to the first and from the innermost to the outermost tile, each dynamic step continues where the
#     previous one ended, starting from the span of the static part = (largest static step) x (bound of that stride).


def lex_keys(tb):
    return [(d, k) for d, t in enumerate(tb) for k in range(len(t))]


def gen_side2(rng, tb, dyn_dims):
    rank = len(tb)
    shape = shape_of(tb)
    kind = rng.choice(["tsl", "none", "strided", "strided"])
    side = {"kind": kind, "off": 0, "dynmarks": [[d, 0, "b"] for d in dyn_dims]}
    if kind == "none":
        side["steps"] = row_major_steps(tb)
    elif kind == "strided":
        order = list(range(rank))
        rng.shuffle(order)
        cur, ds, pads = 1, {}, {}
        for d in order:
            ds[d] = cur
            cur *= shape[d]
            pads[d] = rng.choice([0, 0, 0, 1, 3])
            cur += pads[d]
        side.update(order=order, pads=[pads[d] for d in range(rank)], dimstrides=[ds[d] for d in range(rank)])
        side["dyn_stride"] = [bool(rng.random() < 0.45) for d in range(rank)]
        side["rt_recompute"] = rng.random() < 0.6
        side["off"] = rng.choice([0, 0, 3])
        side["dyn_off"] = rng.random() < 0.3
        side["steps"] = strided_steps(tb, side["dimstrides"])
    else:
        keys = lex_keys(tb)
        k = min(rng.choice([0, 0, 1, 1, 2]), len(keys) - 1)
        dynk = sorted(rng.sample(keys, k), reverse=True)  # memory order of the dynamic steps: last dimension / innermost tile first
        static = [x for x in keys if x not in dynk]
        rng.shuffle(static)
        steps, cur = {}, 1
        for d, j in static:
            steps[(d, j)] = cur
            cur *= tb[d][j]
            if rng.random() < 0.2:
                cur += rng.choice([1, 2, 4])
        for d, j in dynk:
            steps[(d, j)] = 0  # resolved at run time
            side["dynmarks"].append([d, j, "s"])
        side["steps"] = [[steps[(d, j)] for j in range(len(t))] for d, t in enumerate(tb)]
        side["off"] = rng.choice([0, 0, 3])
    return side


def strided_steps(tb, dimstrides):
    out = []
    for d, t in enumerate(tb):
        c, row = dimstrides[d], [0] * len(t)
        for k in reversed(range(len(t))):
            row[k] = c
            c *= t[k]
        out.append(row)
    return out


def gen_case_dyn2(rng):
    rank = rng.choice([1, 2, 2, 3, 3])
    tb = [[rng.choice([1, 2, 2, 3, 4]) for _ in range(rng.choice([1, 1, 2]))] for _ in range(rank)]
    dyn_dims = sorted(rng.sample(range(rank), min(rank, rng.choice([1, 1, 2]))))
    for d in dyn_dims:
        tb[d][0] = rng.choice([2, 3, 4])
    case = {"fam": "dyn2", "tb": tb, "el": rng.choice(list(EL) + list(EL) + list(EL_ODD)), "dyn": True, "dyn_dims": dyn_dims, "sides": [gen_side2(rng, tb, dyn_dims) for _ in range(2)]}
    case["env"] = {"base": [0x1000 + 8 * rng.randrange(16), 0x20000 + 8 * rng.randrange(16)], "seed": rng.randrange(1 << 30), "shuffle": rng.random() < 0.8,
                   "dyn_bounds": [rng.randint(1, tb[d][0]) for d in dyn_dims]}
    return case


def runtime_layout2(case, side):
    tb = [list(t) for t in case["tb"]]
    for d, b in zip(case["dyn_dims"], case["env"]["dyn_bounds"]):
        tb[d][0] = b
    kind = side["kind"]
    if kind == "none":
        return tb, row_major_steps(tb)
    if kind == "strided":
        ds = list(side["dimstrides"])
        if side["rt_recompute"]:
            shape = shape_of(tb)
            cur = 1
            for d in side["order"]:
                if side["dyn_stride"][d]:
                    ds[d] = cur  # smallest value that fits what lies below it at run time
                cur = ds[d] * shape[d] + side["pads"][d]
        return tb, strided_steps(tb, ds)
    steps = [list(x) for x in side["steps"]]
    dynk = sorted(((d, k) for d, k, w in side["dynmarks"] if w == "s"), reverse=True)
    static = [(steps[d][k], tb[d][k]) for d, k in lex_keys(tb) if (d, k) not in dynk]
    mx = max(x for x, _ in static)
    cur = mx * max(b for x, b in static if x == mx)
    for d, k in dynk:
        steps[d][k] = cur
        cur *= tb[d][k]
    return tb, steps


def gen_case(rng, tier):
    if rng.random() < 0.15:
        return gen_case_dyn2(rng)
    rank = rng.choice([1, 2, 2, 3, 3, 4])
    depth = [rng.choice([1, 2, 2, 3]) for _ in range(rank)]
    tb = [[rng.choice([1, 2, 2, 3, 4]) for _ in range(depth[d])] for d in range(rank)]
    while True:
        n = 1
        for s in shape_of(tb):
            n *= s
        if n <= 512:
            break
        d = max(range(rank), key=lambda q: shape_of(tb)[q])
        tb[d] = tb[d][:-1] or [2]
    dyn = rng.random() < 0.3
    dd = rng.choice([0, 0] + list(range(rank))) if dyn else 0
    case = {"tb": tb, "el": rng.choice(list(EL) + list(EL) + list(EL_ODD)), "dyn": dyn, "dyn_dim": dd, "sides": [gen_side(rng, tb, dyn, dd) for _ in range(2)]}
    if not dyn and rng.random() < 0.06:
        # a source that maps several logical elements onto one address: sliding windows (equal or small strides in
        # different dimensions)
        shape = shape_of(tb)
        if rng.random() < 0.4:
            case["broadcast"] = True
        ds = [rng.choice([1, 1, n_, 2, 3] + ([0, 0] if case.get("broadcast") else [])) for n_ in shape]  # stride 0: a broadcast dimension
        case["sides"][0] = {"kind": "strided", "off": rng.choice([0, 0, 3]), "dynmarks": [], "dimstrides": ds, "steps": strided_steps(tb, ds),
                            "dyn_stride": [False] * rank, "dyn_off": False, "overlapping": True}
    case["env"] = {"base": [0x1000 + 8 * rng.randrange(16), 0x20000 + 8 * rng.randrange(16)], "seed": rng.randrange(1 << 30), "shuffle": rng.random() < 0.8, "dyn_bound": rng.choice([1, 2, 3, 4])}
    if not dyn and rng.random() < 0.15:
        # a second copy in the same function: same shape and element type, another tiling; one plain (non-TSL) side of the
        # first copy may appear again with exactly the same type
        shape = shape_of(tb)
        tb2 = [refactor(rng, n) for n in shape]
        second = {"tb": tb2, "sides": [gen_side(rng, tb2, False, 0) for _ in range(2)]}
        plain = [(i, sd) for i, sd in enumerate(case["sides"]) if sd["kind"] != "tsl"]
        if plain and rng.random() < 0.75:
            i, sd = rng.choice(plain)
            sd = dict(sd)
            if sd["kind"] == "strided":
                sd["steps"] = strided_steps(tb2, sd["dimstrides"])
            else:
                sd["steps"] = row_major_steps(tb2)
            second["sides"][i if sd.get("overlapping") else rng.choice([i, i, 1 - i])] = sd
        if case["sides"][0]["kind"] == "tsl" and not case["sides"][0].get("overlapping") and rng.random() < 0.4:
            # ... or the second copy reads the same tiled buffer as the first one (into another destination)
            second = {"tb": tb, "sides": [case["sides"][0], gen_side(rng, tb, False, 0)], "same_source": True}
        case["second"] = second
    return case


def refactor(rng, n):
    """tile bounds (depth 1-3) whose product is n"""
    out = []
    while n > 1 and len(out) < 2 and rng.random() < 0.6:
        divs = [d for d in (2, 3, 4) if n % d == 0 and d < n]
        if not divs:
            break
        d = rng.choice(divs)
        out.append(d)
        n //= d
    out.insert(0, n)
    return out


def side_type(case, side):
    tb = case["tb"]
    shape = shape_of(tb)
    dd = case.get("dyn_dim", 0)
    dyn_dims = case["dyn_dims"] if case.get("fam") == "dyn2" else ([dd] if case["dyn"] else [])
    sh = "x".join("?" if d in dyn_dims else str(x) for d, x in enumerate(shape))
    k = side["kind"]
    if k == "none":
        lay = ""
    elif k == "tsl":
        lay = ", " + tsl_text(tb, side["steps"], side["off"], {tuple(x) for x in side["dynmarks"]})
    else:
        strs = ", ".join("?" if side["dyn_stride"][d] else str(side["dimstrides"][d]) for d in range(len(tb)))
        lay = f", strided<[{strs}], offset: {'?' if side['dyn_off'] else side['off']}>"
    return f"memref<{sh}x{case['el']}{lay}>"


def second_case(case):
    base = [b + 0x40000 for b in case["env"]["base"]]
    if case["second"].get("same_source"):
        base[0] = case["env"]["base"][0]
    return dict(case, tb=case["second"]["tb"], sides=case["second"]["sides"], second=None, same_source=bool(case["second"].get("same_source")), env=dict(case["env"], base=base))


def emit(case):
    a, b = (side_type(case, s) for s in case["sides"])
    if case.get("second"):
        c2 = second_case(case)
        c, d = (side_type(c2, s) for s in c2["sides"])
        return (
            f'builtin.module {{\n  func.func @f(%a : {a}, %b : {b}, %c : {c}, %d : {d}) {{\n    "memref.copy"(%a, %b) : ({a}, {b}) -> ()\n'
            f'    "memref.copy"({"%a" if case["second"].get("same_source") else "%c"}, %d) : ({c}, {d}) -> ()\n    func.return\n  }}\n}}'
        )
    return f'builtin.module {{\n  func.func @f(%a : {a}, %b : {b}) {{\n    "memref.copy"(%a, %b) : ({a}, {b}) -> ()\n    func.return\n  }}\n}}'


def runtime_layout(case, side):
    """Tile bounds / steps as they are at run time (dynamic outer bound resolved; assumption A8 for a dynamic TSL step)."""
    if case.get("fam") == "dyn2":
        return runtime_layout2(case, side)
    tb = [list(t) for t in case["tb"]]
    steps = [list(s) for s in side["steps"]]
    if case["dyn"]:
        # the generator made (dyn_dim, 0) the outermost (largest) step, so resizing it keeps all other steps
        tb[case.get("dyn_dim", 0)][0] = case["env"]["dyn_bound"]
        if side["kind"] == "none":
            steps = row_major_steps(tb)
    return tb, steps


def execute(case):
    out = new_outcome()
    src = emit(case)
    try:
        S = compile_variant(src, "snax-copy-to-dma")
    except Rejected as r:
        out["status"] = "rejected"
        out["rejected"] = f"{r.stage}:{r.cls}"
        return out
    env = case["env"]
    eb = {**EL, **EL_ODD}[case["el"]]
    m = ByteMachine(S, seed=env["seed"], shuffle_rows=env["shuffle"])
    descs = []
    lay = []
    copies = [case] + ([second_case(case)] if case.get("second") else [])
    for which, cs in enumerate(copies):
        for i, side in enumerate(cs["sides"]):
            tb, steps = runtime_layout(cs, side)
            lay.append((cs, tb, steps))
            shape = shape_of(tb)
            fp = m.src_fp if i == 0 else m.dst_fp
            for idx in all_indices(shape) if not (i == 0 and cs.get("same_source")) else ():
                a = cs["env"]["base"][i] + address(idx, tb, steps, side["off"]) * eb
                for j in range(eb):
                    if (a + j) in fp and not (i == 0 and side.get("overlapping")):
                        raise RuntimeError("generator produced a self-overlapping layout")
                    fp.add(a + j)
                    # source bytes are named by their address: a source may map several logical elements onto one
                    # (broadcast, sliding window)
                    m.mem[a + j] = ("src", which, a + j) if i == 0 else ("poison",)
            dstr = [steps[d][-1] for d in range(len(tb))]
            descs.append(Desc(cs["env"]["base"][i], side["off"] if side["kind"] == "strided" else 0, shape, dstr, eb))
    env = case["env"]
    if m.src_fp & m.dst_fp:
        raise RuntimeError("footprints overlap")
    out["runs"] = 1
    out["zero_fault_runs"] = int(not env["shuffle"])
    try:
        m.run_single("f", descs, Core(0))
    except Violation as v:
        out.update(status="violation", oracle=v.oracle, message=v.message)
        return out
    for which, cs in enumerate(copies):
        _, tb, steps = lay[2 * which + 1]
        _, stb, ssteps = lay[2 * which]
        side = cs["sides"][1]
        for idx in all_indices(shape_of(tb)):
            a = cs["env"]["base"][1] + address(idx, tb, steps, side["off"]) * eb
            sa = cs["env"]["base"][0] + address(idx, stb, ssteps, cs["sides"][0]["off"]) * eb
            for j in range(eb):
                if m.mem[a + j] != ("src", 0 if cs.get("same_source") else which, sa + j):
                    out.update(status="violation", oracle="element-position", message=f"copy {which}: logical element {idx} byte {j}: destination address {a + j:#x} holds {m.mem[a + j]!r}")
                    return out
    out["steps"] = m.steps
    merge(out["probes"], m.probes)
    merge(out["faults"], m.faults)
    out["probes"]["pair-" + case["sides"][0]["kind"] + "-" + case["sides"][1]["kind"] + ("-dyn" if case["dyn"] else "")] = 1
    out["probes"]["dma-transfers"] = m.transfers
    out["nontrivial"] = bool(m.bytes_moved and (m.transfers >= 2 or "scf.for" in src or True) and m.transfers >= 1 and (m.transfers >= 2 or case["sides"][0]["kind"] != "none" or case["sides"][1]["kind"] != "none"))
    out["digest"] = digest_of(m.transfers, m.bytes_moved)
    return out


def _static_lcb(self, other, starting_stride=1):
    """Counterfactual for attributing KF-C05-1: the largest common contiguous block as its docstring describes it -
    'stops searching when it hits a dynamic Stride, so it finds the largest static block'."""
    from snaxc.ir.tsl.stride import Stride

    strides = [x for x in self]
    result = []
    cur = starting_stride
    while True:
        nxt = next(((d, k, st) for d, k, st in strides if st.step == cur and st.step is not None and st.bound is not None), None)
        if nxt is None:
            return result or [Stride(starting_stride, 1)]
        d, k, st = nxt
        strides.remove(nxt)
        if st == other.get_stride(d, k):
            result.append(st)
            cur = st.step * st.bound
        else:
            return result or [Stride(starting_stride, 1)]


def _kf_c05_1(case, outcome):
    """the violation disappears when the common-block search stops at dynamic strides (and only then it is this finding)"""
    if not case.get("dyn") or outcome.get("oracle") not in ("footprint", "element-position"):
        return False
    from snaxc.ir.tsl.tiled_strided_layout import TiledStridedLayout

    orig = TiledStridedLayout.largest_common_contiguous_block
    TiledStridedLayout.largest_common_contiguous_block = _static_lcb
    try:
        again = execute(case)
    finally:
        TiledStridedLayout.largest_common_contiguous_block = orig
    return again["status"] == "ok"


TRIGGERS = {"common_block_search_continues_past_dynamic_strides": _kf_c05_1}


def shrink(case):
    tb = case["tb"]
    if case["el"] != "i8":
        yield dict(case, el="i8")
    if case["env"]["shuffle"]:
        yield dict(case, env=dict(case["env"], shuffle=False))
    if case.get("second"):
        yield {k: v for k, v in case.items() if k != "second"}
        yield dict(second_case(case), env=case["env"])
    for i, s in enumerate(case["sides"]):
        if s["off"]:
            ns = list(case["sides"])
            ns[i] = dict(s, off=0)
            yield dict(case, sides=ns)
        if s["kind"] == "strided" and (any(s["dyn_stride"]) or s["dyn_off"]):
            ns = list(case["sides"])
            ns[i] = dict(s, dyn_stride=[False] * len(tb), dyn_off=False)
            yield dict(case, sides=ns)
    if case.get("fam") == "dyn2":
        for j, b in enumerate(case["env"]["dyn_bounds"]):
            if b > 1:
                nb = list(case["env"]["dyn_bounds"])
                nb[j] = b - 1
                yield dict(case, env=dict(case["env"], dyn_bounds=nb))
        for i, s in enumerate(case["sides"]):
            if s["kind"] == "strided" and s.get("rt_recompute"):
                ns = list(case["sides"])
                ns[i] = dict(s, rt_recompute=False)
                yield dict(case, sides=ns)
    elif case["dyn"] and case["env"]["dyn_bound"] > 1:
        yield dict(case, env=dict(case["env"], dyn_bound=case["env"]["dyn_bound"] - 1))


def sample_of(case):
    return {"program": emit(case), "environment": case["env"], "tile_bounds": case["tb"]}


META = {
    "real": ["snaxc/transforms/snax_copy_to_dma.py", "snaxc/dialects/tsl.py (get_bound_ops / get_step_ops)", "snaxc/ir/tsl/* (largest_common_contiguous_block, from_strides)"],
    "stub": [
        "IR interpreter; byte-addressed memory with footprint shadows and the DMA engine of runtime/include/snax_rt.h (simsnax/byte_machine.py)",
        "independent layout oracle written from ir/tsl/README.md (simsnax/layout.py)",
        "xDSL 0.70.0 with the irdl_options shim",
    ],
    "assumptions": [
        "A7 snax_dma_2d_transfer copies `size` bytes x `repeat` rows with independent strides, rows in any order",
        "A8 (dynamic TSL steps only) going from the last dimension to the first and from the innermost tile outwards, each dynamic step continues where the previous one ended, starting at (largest static step) x (bound of that stride; the largest bound if several strides share the step)",
        "dyn2: static steps are laid out for a capacity (the largest run-time bound generated), run-time bounds are 1..capacity",
        "destination layouts are injective; sources are injective except in 6% of the static cases (sliding-window strides: equal or small strides in different dimensions); source and destination lie in disjoint memory; dynamic strides are the dense ones the generator chose",
        "no schedule or interleaving enters this property: distinct_interleavings = 1",
    ],
    "interleavings": "single core: 1",
}
