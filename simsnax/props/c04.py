"""C04 - CSR lowering writes every field to its declared register (DESIGN.md §5 C04)."""
from __future__ import annotations

from ..csr_machine import AccDecl, CsrMachine, compare_csr, leftover_accfg, normalise_reference, normalise_subject, style_of
from ..gen import accel_cfg as A
from ..interp import Core, StepLimit
from .accfg_common import (
    ASSUMPTIONS,
    STUB,
    G,
    Rejected,
    Violation,
    compare_histories,
    compat,
    digest_of,
    gen_envs,
    is_zero_fault,
    merge,
    new_outcome,
    run_machine,
    shrink_case,
)

ID = "C04"
BUDGET = {"quick": 5000, "thorough": 50000}
K_ENVS = {"quick": 4, "thorough": 8}
MIN_NONTRIVIAL = {"quick": 150, "thorough": 1500}
RULE = (
    "cases: (accelerator configuration, accfg program) pairs. Configurations: snax_hwpe_mult, gemmini (RoCC), snax_alu / snax_gemmx / "
    "snax_xdma / snax_phs with seeded streamer configurations (1-6 streamers, 1-6 temporal dims with n/i/r flags, 1-2 spatial dims, option and "
    "extension subsets; in half of the non-RoCC cases the module declares the accelerator 16 / 64 addresses higher or 32 lower than the registered object would; gemmx m/n/k 1..16 (launches with per-channel quantisation attributes in 40% of the gemmx cases), PHS switch counts 0..24); the accfg.accelerator op comes from generate_acc_op() of the current tree. "
    "Programs: accfg-family ASTs over that accelerator's real field and launch-field names, taken after one of the stages "
    "{as written, trace-states, +dedup, +dedup+overlap}. Reference = accfg-level program on the name-indexed machine; subject = "
    "the same program after convert-accfg-to-csr on the address-indexed CSR machine (csrw/csrr/.insn interpreted), same environments "
    "(clobbers, device latencies, garbage on non-barrier CSR reads). non-trivial = >=1 launch executed and the subject ran; distinct = hash of case."
)
STAGES = ["", "accfg-trace-states", "accfg-trace-states,accfg-dedup", "accfg-trace-states,accfg-dedup,accfg-config-overlap"]


def gen_case(rng, tier):
    cfg = A.gen_config(rng)
    prof = G.default_profile(rng, tier)
    prof["n_acc"] = 1
    prof["consts"] = 8
    prof["max_stmts"] = 14
    prof["top_stmts"] = rng.randint(1, 4)
    prof["llvm_call"] = False
    prof["index_vals"] = rng.choice([0, 0, 0.2])
    prof["relaunch"] = rng.choice([0, 0, 0.25])  # the same configuration launched again, also nested in a region without a setup
    prof["partial"] = rng.choice([0, 0, 0.4])  # setups that only write some of the fields
    prof["launch_perm"] = rng.choice([0, 0, 0.5])  # launches that name their registers in another order, or only some of them
    prof["state_loops"] = rng.choice([0, 0, 0.5])  # hand-threaded loops that carry the state, some launching the entry state first
    prof["head_launch"] = rng.choice([0, 0.5])
    prof["prethread"] = rng.choice([0, 0, 0.5])  # hand-threaded input: setups that continue the previous setup of their block
    G.classic(rng, prof)
    case = {"cfg": cfg, "stage": rng.choice([0, 1, 2, 2, 3, 3]), "prof": prof, "gseed": rng.randrange(1 << 30)}
    case["decl_shift"] = rng.choice([None, None, None, 16, 64, -32])
    if cfg["kind"] == "gemmx":
        case["per_channel"] = rng.random() < 0.4
        if case["per_channel"]:
            cfg["mnk"][1] = rng.choice([4, 8, 8, 12, 16])  # the shift packing of the rescale paths needs n % 4 == 0 (pack_bitlist raises otherwise)
    case["envs"] = gen_envs(rng, K_ENVS[tier])
    case["ast"] = None  # filled lazily: the number of fields depends on the configuration (current tree)
    return case


def materialise(case):
    """Build the accelerator of the current tree, its declaration and (once) the program AST."""
    import random

    acc = A.build(case["cfg"])
    acc_op = acc.generate_acc_op()
    acc_op.verify()
    fields = list(acc_op.field_names())
    lfields = list(acc_op.launch_field_names())
    style, rocc = style_of(acc)
    shift = case.get("decl_shift")
    if shift and not rocc and style != "poll-clear":
        # the module declares the accelerator at other addresses than the registered Python object would generate (IR
        # written for another hardware configuration): the lowering has to follow the declaration in the module
        from snaxc.dialects import accfg

        every = [v.value.data for _, v in acc_op.field_items()] + [v.value.data for _, v in acc_op.launch_field_items()] + [acc_op.barrier.value.data]
        if 0 <= min(every) + shift and max(every) + shift + 2 <= 0xFFF:
            acc_op = accfg.AcceleratorOp(
                acc_op.name_prop,
                {n: v.value.data + shift for n, v in acc_op.field_items()},
                {n: v.value.data + shift for n, v in acc_op.launch_field_items()},
                acc_op.barrier.value.data + shift,
            )
            acc_op.verify()
    if case.get("ast") is None:
        prof = dict(case["prof"])
        prof["n_fields"] = [len(fields), 0]
        prof["n_launch"] = [len(lfields)]
        if rocc and case["stage"] == 0:
            # without state tracing in front of it the RoCC lowering cannot know the partner of a field that is written alone
            # (it takes 0, as for a first setup): half-written instruction pairs only in traced programs
            prof["partial"] = 0
        prof["launch_pool"] = ["%one", "%k0", "%k1"] if case["cfg"]["kind"].startswith("synth") else ["%one", "%zero", "%k0", "%k1"] if rocc else (["%zero"] if case["cfg"]["kind"] == "hwpe_mult" else ["%one", "%one", "%k0"])
        case["ast"] = G.AccfgGen(random.Random(case["gseed"]), prof).program()
        if case["cfg"]["kind"] == "gemmx" and case.get("per_channel"):
            decorate_per_channel(case["ast"], random.Random(case["gseed"] + 1), case["cfg"]["mnk"][1], fields)
    return acc, acc_op, fields, lfields, style, rocc


def decorate_per_channel(ast, rng, n, fields):
    """gemmx launches with per-output-channel quantisation: 2-3 groups of n channels; the setup in front programs the
    values of group 0 (what convert_to_acc_ops emits), as constants - so a repeated execution is what dedup optimises."""

    def walk(body):
        for st in body:
            if st["k"] == "sl" and len(st.get("lvals", [])) == 2 and rng.random() < 0.5:
                groups = rng.choice([2, 2, 3])
                st["pc"] = {
                    "m": groups * rng.randint(1, 4),
                    "mult": [rng.randrange(1, 1 << 20) for _ in range(groups * n)],
                    "shift": [rng.randrange(0, 64) for _ in range(groups * n)],
                }
                # producer invariant: the setup in front holds the values of group 0 (constants)
                vals = list(st["vals"])
                consts = ast.setdefault("extra_consts", {})
                for j in range(n):
                    nm = f"%pc{len(consts)}"
                    consts[nm] = st["pc"]["mult"][j]
                    vals[fields.index(f"mult_{j}")] = nm
                for j in range(0, n, 4):
                    word = 0
                    for k, x in enumerate(st["pc"]["shift"][j : min(j + 4, n)]):
                        word |= x << (8 * k)
                    nm = f"%pc{len(consts)}"
                    consts[nm] = word
                    vals[fields.index(f"shift_{j // 4}")] = nm
                st["vals"] = vals
            for key in ("body", "then", "else", "gap"):
                if st.get(key):
                    walk(st[key])

    walk(ast["body"])


def per_channel_invariant_holds(ast, n, fields):
    """every per-channel launch follows a setup that programs the shift / mult values of its channel group 0 (as constants):
    the form convert_to_acc_ops produces, and the only one the launch lowering has to be right for."""
    consts = ast.get("extra_consts", {})

    def ok(st):
        pc = st["pc"]
        if len(st["vals"]) < len(fields) or len(pc["mult"]) % n or len(pc["mult"]) != len(pc["shift"]) or len(pc["mult"]) < 2 * n:
            return False
        for j in range(n):
            if consts.get(st["vals"][fields.index(f"mult_{j}")]) != pc["mult"][j]:
                return False
        for j in range(0, n, 4):
            word = 0
            for k, x in enumerate(pc["shift"][j : min(j + 4, n)]):
                word |= x << (8 * k)
            if consts.get(st["vals"][fields.index(f"shift_{j // 4}")]) != word:
                return False
        return True

    def walk(body):
        return all((not st.get("pc") or ok(st)) and all(walk(st.get(k, [])) for k in ("body", "then", "else", "gap")) for st in body)

    return walk(ast["body"])


def has_per_channel(body):
    return any(st.get("pc") or any(has_per_channel(st.get(k, [])) for k in ("body", "then", "else", "gap")) for st in body)


def context_with(acc):
    ctx = compat.main().ctx.clone()
    ctx._registered_accelerators[acc.name] = lambda: acc
    return ctx


def program_text(case, acc, acc_op, fields, lfields, rocc):
    decl = compat.text(acc_op)
    names = [{"name": acc.name, "fields": fields, "launch_fields": lfields}]
    return G.emit(case["ast"], acc_names=names, vty="i64" if rocc else "i32", decls=[decl])


def compile_stage(src, acc, spec):
    from xdsl.parser import Parser

    ctx = context_with(acc)
    try:
        mod = Parser(ctx, src).parse_module()
        mod.verify()
    except Exception as e:
        raise Rejected("parse", e)
    if spec:
        try:
            compat.run_passes(ctx, mod, spec)
        except Exception as e:
            raise Rejected(spec, e)
    return mod


def execute(case):
    out = new_outcome()
    try:
        acc, acc_op, fields, lfields, style, rocc = materialise(case)
    except Exception as e:  # a configuration the constructors reject
        out["status"] = "rejected"
        out["rejected"] = f"config:{type(e).__name__}"
        return out
    decl = AccDecl(acc_op, style, rocc)
    inj = decl.injectivity_problem()
    if inj:
        out.update(status="violation", oracle="register-map-injective", message=inj)
        return out
    # PHS: switch k of the generated hardware reads the k-th register of the switch block - the declared addresses follow the
    # switch numbers (the decoded values are paired with the fields by position)
    sw = {int(n.rsplit("_", 1)[1]): v.value.data for n, v in acc_op.field_items() if n.startswith("phs_switch_")}
    if sw and any(sw[k] != sw[0] + k for k in sw):
        k = next(k for k in sorted(sw) if sw[k] != sw[0] + k)
        out.update(status="violation", oracle="register-map-order", message=f"phs_switch_{k} is declared at {sw[k]:#x}, switch {k} reads register {sw[0] + k:#x} (phs_switch_0 at {sw[0]:#x})")
        return out
    if has_per_channel(case["ast"]["body"]) and not (case["cfg"]["kind"] == "gemmx" and per_channel_invariant_holds(case["ast"], case["cfg"]["mnk"][1], fields)):
        out["status"] = "rejected"
        out["rejected"] = "workload:per-channel-launch-without-its-setup"
        return out
    if rocc and case["stage"] == 0 and any(st.get("omit") for st in G._walk_stmts(case["ast"]["body"])):
        out["status"] = "rejected"
        out["rejected"] = "workload:half-written-rocc-pair-without-state-tracing"
        return out
    src = program_text(case, acc, acc_op, fields, lfields, rocc)
    stage = STAGES[case["stage"]]
    try:
        base = compile_stage(src, acc, "accfg-trace-states" if stage else None)
        R = compile_stage(src, acc, stage or None)
        S = compile_stage(src, acc, (stage + "," if stage else "") + "convert-accfg-to-csr")
    except Rejected as r:
        out["status"] = "rejected"
        out["rejected"] = f"{r.stage.split(',')[-1]}:{r.cls}"
        return out
    left = leftover_accfg(S)
    if left:
        out.update(status="violation", oracle="state-survives", message=left)
        return out
    accs = {acc.name: fields}
    decls = {acc.name: decl}
    launches = 0
    digests = []
    pc = has_per_channel(case["ast"]["body"])
    for i, env in enumerate(case["envs"]):
        if pc:
            # the split between streamer launch and array launches has no documented timing: device latency is not injected
            env = dict(env, latency=0)
        out["runs"] += 2
        out["zero_fault_runs"] += 2 * is_zero_fault(env)
        zero = (acc.name,) if rocc else ()
        mr = run_machine(R, env, accs, "ref", log_setups=True, poweron_zero=zero)
        if case["stage"] >= 2:
            # guard: the earlier stages must have been right on this environment (C01 / C06 oracles)
            mb = run_machine(base, env, accs, "ref", poweron_zero=zero)
            diff = compare_histories(mb.hist, [h for h in mr.hist if h[0] != "setup"])
            if diff and pc:
                # attribute the difference: if the optimised program is right as long as a launch leaves the registers
                # alone (what the state tracking assumes), the writes the per-channel launch lowering issues behind its
                # back are what makes a later launch observe other values than the program configured
                mb2 = run_machine(base, env, accs, "ref", poweron_zero=zero, pc_side_effects=False)
                mr2 = run_machine(R, env, accs, "ref", poweron_zero=zero, pc_side_effects=False)
                if not compare_histories(mb2.hist, mr2.hist):
                    out.update(status="violation", oracle="launch-writes-tracked-fields", message="after " + STAGES[case["stage"]] + ": " + diff + " - the per-channel launch lowering overwrites M / temporal_loop_bound / shift_* / mult_* while the state tracking still believes the values of the setup are in place, so fields removed from a later setup are missing", env_index=i)
                    return out
            if diff:
                out["probes"]["guard-skipped-env"] = out["probes"].get("guard-skipped-env", 0) + 1
                continue
        ms = CsrMachine(S, env, [decl], label="sub")
        ms.split_launch = pc
        ms.step_limit = 600_000
        try:
            ms.run_single("f", G.env_args(env), Core(0))
        except Violation as v:
            out.update(status="violation", oracle=v.oracle, message=v.message, env_index=i)
            return out
        except StepLimit:
            # liveness: an await must return once its device is idle - judged after a retry with all faults off
            calm = dict(env, latency=0, clobber=False)
            ms2 = CsrMachine(S, calm, [decl], label="sub")
            ms2.split_launch = pc
            # generous: a launch + await costs a handful of steps at accfg level but ~100 interpreted ops once lowered
            # (address constants, two launch writes, the polling loop); a true hang exceeds any bound
            ms2.step_limit = min(max(200_000, 400 * mr.steps), 20_000_000)
            try:
                ms2.run_single("f", G.env_args(calm), Core(0))
            except StepLimit:
                out.update(status="violation", oracle="progress", message=f"the lowered program does not finish within {ms2.step_limit} steps with all faults off (the reference needs {mr.steps}): an await never returns", env_index=i)
                return out
            except Violation as v:
                out.update(status="violation", oracle=v.oracle, message=v.message, env_index=i)
                return out
            out["probes"]["step-limit-under-faults-only"] = out["probes"].get("step-limit-under-faults-only", 0) + 1
            continue
        d = compare_csr(normalise_reference(mr.hist, decls, split_launch=pc), normalise_subject(ms.hist, decls), decls, ignore_writes=pc)
        if d:
            out.update(status="violation", oracle="csr-history", message=d, env_index=i)
            return out
        out["steps"] += mr.steps + ms.steps
        merge(out["probes"], ms.probes)
        merge(out["faults"], ms.faults)
        out["probes"]["kind-" + case["cfg"]["kind"]] = out["probes"].get("kind-" + case["cfg"]["kind"], 0) + 1
        launches += sum(1 for h in mr.hist if h[0] in ("launch", "pclaunch"))
        digests.append(digest_of([(h[0], h[1]) for h in ms.hist], ms.steps))
    out["nontrivial"] = bool(launches)
    out["digest"] = digest_of(digests)
    return out


def _kf_c04_1(case, outcome):
    return bool(outcome.get("oracle") == "launch-writes-tracked-fields" and case.get("ast") and has_per_channel(case["ast"]["body"]))


def _kf_c04_2(case, outcome):
    """RoCC: the instruction carries 0 for the half of a pair that a setup without a known incoming state leaves alone"""
    import re

    if case["cfg"]["kind"] != "gemmini" or outcome.get("oracle") != "csr-history" or not case.get("ast"):
        return False
    m = re.search(r"the value in effect for (\S+)\.rs([12]) is 0, the configured value is", outcome.get("message") or "")
    if not m:
        return False
    try:
        _, _, fields, _, _, _ = materialise(case)
    except Exception:
        return False
    names = list(fields)
    half, other = f"{m.group(1)}.rs{m.group(2)}", f"{m.group(1)}.rs{3 - int(m.group(2))}"
    if half not in names or other not in names:
        return False
    hi, oi = names.index(half), names.index(other)
    # some setup writes the partner but not this half
    return any(st["k"] == "sl" and hi in st.get("omit", ()) and oi not in st.get("omit", ()) for st in G._walk_stmts(case["ast"]["body"]))


TRIGGERS = {"per_channel_launch_writes_tracked_fields": _kf_c04_1, "rocc_half_pair_without_known_state_gets_zero": _kf_c04_2}


def shrink(case):
    if case.get("ast") is None:
        try:
            materialise(case)
        except Exception:
            return
    yield from shrink_case(case)
    if case["stage"] > 0:
        yield dict(case, stage=case["stage"] - 1)
    if case.get("decl_shift"):
        yield dict(case, decl_shift=None)
    cfg = case["cfg"]
    # simpler configurations keep the same AST only if the number of fields does not change: the
    # candidate is regenerated from scratch instead (ast=None) with a smaller configuration
    for j, s in enumerate(cfg.get("streamers", [])):
        if s["opts"]:
            ns = [dict(x) for x in cfg["streamers"]]
            ns[j]["opts"] = s["opts"][:-1]
            yield dict(case, cfg=dict(cfg, streamers=ns), ast=None)
        if len(s["temporal"]) > 1:
            ns = [dict(x) for x in cfg["streamers"]]
            ns[j]["temporal"] = s["temporal"][:-1]
            yield dict(case, cfg=dict(cfg, streamers=ns), ast=None)
    if cfg["kind"] in ("alu", "phs") and len(cfg["streamers"]) > 1:
        yield dict(case, cfg=dict(cfg, streamers=cfg["streamers"][:-1]), ast=None)


def sample_of(case):
    try:
        acc, acc_op, fields, lfields, style, rocc = materialise(case)
        prog = program_text(case, acc, acc_op, fields, lfields, rocc)
    except Exception as e:
        prog = f"<could not materialise: {e}>"
    return {"configuration": case["cfg"], "stage": STAGES[case["stage"]] + ",convert-accfg-to-csr", "program": prog, "environments": case["envs"][:1]}


META = {
    "real": [
        "snaxc/transforms/convert_accfg_to_csr.py",
        "every Accelerator class: generate_acc_op, lower_acc_setup / lower_acc_launch / lower_acc_await (snax.py, rocc.py, snax_gemmx.py, ...)",
        "accfg-trace-states, accfg-dedup, accfg-config-overlap as earlier stages",
    ],
    "stub": STUB
    + [
        "CSR bus + accelerator devices by address, polling conventions from the docstrings of SNAXPollingBarrier*, RoCC decoder (simsnax/csr_machine.py)",
        "SNAXPHSAccelerator is constructed with a duck-typed PE (symbol name + number of true switches) and template spec (streamer configuration)",
    ],
    "assumptions": ASSUMPTIONS
    + [
        "a write to a launch register starts a job; consecutive launch-register writes form one job",
        "busy + performance-counter status registers sit at launch_streamer+1/+2 and are read-only (get_streamer_launch_dict comment)",
        "barrier styles 2 and 4 are used by no accelerator class of the repo: they are exercised through two synthetic accelerators defined in /verif (SNAXAccelerator + SNAXPollingBarrier2 / 4); style 4 model: a write of 0 to a launch register starts nothing and blocks while the device is busy; ",
        "gemmx launches with per-output-channel quantisation (attributes m / mult_vals / shift_vals; 40% of the gemmx cases, n in {4,8,12,16}, 2-3 channel groups): semantics restated from the comments of lower_acc_launch - streamers launched once, then per group of n channels the array is launched and awaited with M = temporal_loop_bound = m / #groups, mult_j = value j of the group, byte k%4 of shift_{k//4} = shift value k of the group; the registers keep the values of the last group. Each such launch follows a setup holding the group-0 values as constants (what convert_to_acc_ops emits). For these programs field writes are not compared as multisets (the launch lowering issues its own), only the register contents at every launch-register write, the launch writes and the awaits; device latency is not injected (the timing between streamer and array launch is documented nowhere)",
        "values compared mod 2^32 (CSR) / 2^64 (RoCC); order of field writes inside one setup is not compared",
    ],
    "interleavings": "single core: 1",
}
