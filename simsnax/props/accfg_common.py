"""Shared pieces of the accfg-level properties C01 / C06 / C07."""
from __future__ import annotations

import hashlib

from .. import compat
from ..accfg_machine import AccfgMachine, accelerators_of, compare_histories
from ..gen import accfg as G
from ..interp import Core, HarnessError, StepLimit, Violation, check_dominance

REAL = [
    "snaxc/transforms/convert_linalg_to_accfg.py (accfg-trace-states)",
    "snaxc/transforms/accfg_dedup.py",
    "snaxc/transforms/accfg_config_overlap.py",
    "snaxc/inference/trace_acc_state.py (infer_state_of, evaluated on the executed IR objects)",
    "snaxc/inference/helpers.py, scoped_setups.py",
    "snaxc/dialects/accfg.py (parser, verifier)",
]
STUB = [
    "IR interpreter for arith/scf/func/accfg/test ops (simsnax/interp.py)",
    "accelerator register files with launch latching and busy window (simsnax/accfg_machine.py)",
    "external-call environment: clobbers decided by a pure hash of (site tag, occurrence, seed)",
    "xDSL 0.70.0 with the irdl_options list->tuple shim (third party, drifted from the pinned commit)",
]
ASSUMPTIONS = [
    "A1 launch latches the register file (accfg.launch docstring)",
    "A2 only func.call/llvm.call without accfg.effects=none, or ops with accfg.effects=full, may touch accelerator registers",
    "A3 scf.for uses signed < and a positive step",
    "snapshots are compared only on fields the reference program had written or that were clobbered before the launch",
]


class Rejected(Exception):
    def __init__(self, stage, exc):
        super().__init__(f"{stage}: {type(exc).__name__}: {exc}")
        self.stage = stage
        self.cls = type(exc).__name__


def compile_variant(src: str, spec: str | None, bind: dict | None = None):
    try:
        ctx, mod = compat.parse(src, bind=bind)
    except Exception as e:  # a shrink candidate may be ill-formed
        raise Rejected("parse", e)
    if spec:
        try:
            compat.run_passes(ctx, mod, spec)
        except HarnessError:
            raise
        except Exception as e:
            raise Rejected(spec, e)
    return mod


def run_machine(mod, env, accs, label, pc_side_effects=True, **kw):
    m = AccfgMachine(mod, env, accs, label=label, **kw)
    m.pc_side_effects = pc_side_effects
    m.step_limit = 400_000
    m.run_single("f", G.env_args(env), Core(0))
    return m


def merge(dst: dict, src: dict):
    for k, v in src.items():
        dst[k] = dst.get(k, 0) + v


def digest_of(*objs) -> str:
    return hashlib.blake2b(repr(objs).encode(), digest_size=8).hexdigest()


def new_outcome():
    return {
        "status": "ok",
        "oracle": None,
        "message": None,
        "env_index": None,
        "probes": {},
        "faults": {},
        "steps": 0,
        "runs": 0,
        "zero_fault_runs": 0,
        "nontrivial": False,
        "digest": "",
        "rejected": None,
    }


def gen_envs(rng, k):
    envs = [G.gen_env(rng, fault=False)]  # the first environment is always fault-free
    for _ in range(k - 1):
        envs.append(G.gen_env(rng, fault=True))
    return envs


def is_zero_fault(env):
    return not env.get("clobber") and not env.get("latency")


def shrink_case(case):
    """Generic shrinker for cases of the form {ast, envs, ...}."""
    if len(case["envs"]) > 1:
        for i in range(len(case["envs"])):
            yield dict(case, envs=[case["envs"][i]])
    if len(case["envs"]) == 1:
        for e in G.shrink_env(case["envs"][0]):
            yield dict(case, envs=[e])
    for a in G.shrink_ast(case["ast"]):
        yield dict(case, ast=a)
    if case["ast"]["n_acc"] == 1 and case["ast"]["n_fields"][0] > 1:
        # drop the last field of accelerator 0
        def cut(body):
            out = []
            for s in body:
                s = dict(s)
                if s["k"] == "sl":
                    s["vals"] = s["vals"][:-1]
                for key in ("body", "then", "else", "gap"):
                    if key in s:
                        s[key] = cut(s[key])
                out.append(s)
            return out

        yield dict(case, ast=dict(case["ast"], n_fields=[case["ast"]["n_fields"][0] - 1], body=cut(case["ast"]["body"])))


__all__ = [
    "G",
    "Rejected",
    "compile_variant",
    "run_machine",
    "merge",
    "digest_of",
    "new_outcome",
    "gen_envs",
    "is_zero_fault",
    "shrink_case",
    "accelerators_of",
    "compare_histories",
    "check_dominance",
    "Violation",
    "StepLimit",
    "HarnessError",
    "compat",
]
