"""C06 - setup/compute overlap keeps every launch's configuration (DESIGN.md §5 C06)."""
from __future__ import annotations

from .accfg_common import (
    ASSUMPTIONS,
    REAL,
    STUB,
    G,
    Rejected,
    Violation,
    accelerators_of,
    check_dominance,
    compare_histories,
    compat,
    compile_variant,
    digest_of,
    gen_envs,
    is_zero_fault,
    merge,
    new_outcome,
    run_machine,
    shrink_case,
)

ID = "C06"
BUDGET = {"quick": 8000, "thorough": 80000}
K_ENVS = {"quick": 6, "thorough": 12}
MIN_NONTRIVIAL = {"quick": 150, "thorough": 1500}
RULE = (
    "programs: seeded accfg-family ASTs with lb!=0 / step!=1 / loop-carried operands, hand-threaded state-carrying loops (some launching the entry state first), loop bodies computing %i + %step themselves (also guarded); D = accfg-trace-states[,accfg-dedup] and "
    "O = D,accfg-config-overlap compiled by the current tree. O is compared with D (launch/await/call/opaque history, register snapshots on "
    "written fields, static SSA dominance of O, no undefined value at run time) only on environments where D itself matched the traced "
    "program and D's state links were truthful (guards a, b of DESIGN.md C06). non-trivial = overlap changed the IR, >=1 launch executed and "
    ">=1 environment passed the guards; distinct = hash of (program, environments)."
)


def gen_case(rng, tier):
    prof = G.default_profile(rng, tier)
    prof["lb_step"] = rng.random() < 0.7
    prof["carry"] = rng.random() < 0.5
    prof["w_pure"] = max(prof["w_pure"], 1)
    prof["gap"] = rng.random() < 0.5
    prof["recent_bias"] = rng.choice([0, 0, 0.3, 0.6])
    prof["pure_loop"] = rng.choice([0, 0, 0.3, 0.5])
    prof["relaunch"] = rng.choice([0, 0, 0.15, 0.3])
    prof["memory"] = rng.choice([0, 0.5, 0.5])  # some configuration values are kept in memory (stores and loads among the pure ops)
    if prof["memory"]:
        prof["w_pure"] = max(prof["w_pure"], 3)
    prof["next_iv"] = rng.choice([0, 0, 0.3])  # loop bodies that compute %i + %step themselves, also inside nested regions
    prof["partial"] = rng.choice([0, 0, 0, 0.3])  # setups that only write some of the fields
    prof["state_loops"] = rng.choice([0, 0.5, 0.5])  # hand-threaded loops that already carry an accelerator's state ...
    prof["head_launch"] = rng.choice([0, 0.5, 0.7])  # ... and first launch the configuration they were entered with (plain or guarded)
    G.classic(rng, prof)
    ast = G.AccfgGen(rng, prof).program()
    envs = gen_envs(rng, K_ENVS[tier])
    for e in envs[1:]:
        if rng.random() < 0.5:
            e["latency"] = 10000  # moved setups really execute inside the busy window
    return {"ast": ast, "envs": envs, "dedup": rng.random() < 0.6}


def pipelines(case):
    base = "accfg-trace-states"
    d = base + (",accfg-dedup" if case["dedup"] else "")
    return base, d, d + ",accfg-config-overlap"


def execute(case):
    out = new_outcome()
    src = G.emit(case["ast"])
    p_spec, d_spec, o_spec = pipelines(case)
    try:
        accs = accelerators_of(compile_variant(src, None))
        P = compile_variant(src, p_spec)
        D = compile_variant(src, d_spec) if case["dedup"] else P
        O = compile_variant(src, o_spec)
    except Rejected as r:
        out["status"] = "rejected"
        out["rejected"] = f"{r.stage}:{r.cls}"
        return out
    changed = compat.text(O) != compat.text(D)
    if check_dominance(D) is None:
        dom = check_dominance(O)
        if dom:
            out.update(status="violation", oracle="dominance", message="after accfg-config-overlap: " + dom)
            return out
    else:
        out["probes"]["guard-input-dominance"] = 1
        out["status"] = "ok"
        return out
    digests = []
    launches = 0
    passed = 0
    cache: dict = {}
    for i, env in enumerate(case["envs"]):
        out["runs"] += 3
        out["zero_fault_runs"] += 3 * is_zero_fault(env)
        mp = run_machine(P, env, accs, "ref")
        # guards: D right on this environment, and its links truthful
        try:
            md = run_machine(D, env, accs, "sub", check_infer=True, check_thread=True, infer_cache=cache)
        except Violation:
            out["probes"]["guard-b-skipped-env"] = out["probes"].get("guard-b-skipped-env", 0) + 1
            continue
        if compare_histories(mp.hist, md.hist):
            out["probes"]["guard-a-skipped-env"] = out["probes"].get("guard-a-skipped-env", 0) + 1
            continue
        passed += 1
        try:
            mo = run_machine(O, env, accs, "sub")
        except Violation as v:
            out.update(status="violation", oracle=v.oracle, message=v.message, env_index=i)
            return out
        d = compare_histories(md.hist, mo.hist)
        if d:
            out.update(status="violation", oracle="launch-history", message=d, env_index=i)
            return out
        out["steps"] += mp.steps + md.steps + mo.steps
        merge(out["probes"], mo.probes)
        merge(out["faults"], mo.faults)
        launches += sum(1 for h in md.hist if h[0] == "launch")
        digests.append(digest_of([(h[0], h[1]) for h in mo.hist], mo.steps))
    if changed:
        out["probes"]["overlap-changed-ir"] = 1
    out["nontrivial"] = bool(changed and launches and passed)
    out["digest"] = digest_of(digests)
    return out


def _loops_with_two_setups_then_setup(body):
    """True iff some scf.for body starts its launches with a direct setup+launch statement of an accelerator,
    sets that accelerator up at least once more anywhere in the body (directly or nested), and a setup of that
    accelerator can execute after the loop (later statement at this or an outer level, or - inside an
    enclosing loop - any statement of the enclosing body via its back-edge)."""

    def accs_in(stmts):
        out = []
        for s in stmts:
            if s["k"] == "sl":
                out.append(s["acc"])
            for key in ("body", "then", "else"):
                out += accs_in(s.get(key, []))
        return out

    def visit(stmts, later_accs, in_loop_accs):
        for i, s in enumerate(stmts):
            rest = set(accs_in(stmts[i + 1 :])) | later_accs
            if s["k"] == "for":
                direct = {c["acc"] for c in s["body"] if c["k"] == "sl"}
                inside = accs_in(s["body"])
                for a in direct:
                    if inside.count(a) >= 2 and (a in rest or a in in_loop_accs):
                        return True
                if visit(s["body"], rest, in_loop_accs | set(inside)):
                    return True
            elif s["k"] == "if":
                if visit(s["then"], rest, in_loop_accs) or visit(s["else"], rest, in_loop_accs):
                    return True
        return False

    return visit(body, set(), set())


def _loop_writes_field_a_later_setup_omits(body, acc, fidx):
    """True iff some scf.for contains (anywhere in its body) a setup of accelerator `acc` that writes field number `fidx`, and a
    setup of `acc` that does NOT write that field (a setup of only some of the fields) can execute after the loop: the same
    exit-state dependence without any deduplication - the program itself leaves the field alone behind the loop (a following
    loop that launches the state it is entered with, before any setup, leaves all fields alone)."""

    def writes(stmts):
        for s in stmts:
            if s["k"] == "sl" and s["acc"] == acc and fidx not in s.get("omit", ()):
                return True
            if any(writes(s.get(key, [])) for key in ("body", "then", "else")):
                return True
        return False

    def omits(stmts):
        for s in stmts:
            if s["k"] == "sl" and s["acc"] == acc and fidx in s.get("omit", ()):
                return True
            # a loop that launches the state it is entered with before setting anything up leaves every field alone
            if s["k"] == "for" and s.get("head_launch") and s.get("carry_state") == acc:
                return True
            if any(omits(s.get(key, [])) for key in ("body", "then", "else")):
                return True
        return False

    def visit(stmts, later, in_loop):
        for i, s in enumerate(stmts):
            rest = later or omits(stmts[i + 1 :])
            if s["k"] == "for":
                if writes(s["body"]) and (rest or in_loop or omits(s["body"])):
                    return True
                if visit(s["body"], rest, in_loop or omits(s["body"])):
                    return True
            elif s["k"] in ("if", "sw"):
                if visit(s["then"], rest, in_loop) or visit(s["else"], rest, in_loop):
                    return True
        return False

    return visit(body, False, False)


def _kf_c06_1(case, outcome):
    import re

    msg = outcome.get("message") or ""
    if outcome.get("oracle") != "launch-history" or " observes " not in msg:
        return False
    if case.get("dedup") and _loops_with_two_setups_then_setup(case["ast"]["body"]):
        return True
    m = re.search(r"launch of acc(\d+) observes (\w+)=", msg)
    if m and m.group(2) in G.FIELD_NAMES:
        return _loop_writes_field_a_later_setup_omits(case["ast"]["body"], int(m.group(1)), G.FIELD_NAMES.index(m.group(2)))
    return False


TRIGGERS = {"loop_epilogue_changes_exit_state": _kf_c06_1}


def shrink(case):
    yield from shrink_case(case)
    if case["dedup"]:
        yield dict(case, dedup=False)


def sample_of(case):
    return {"program": G.emit(case["ast"]), "environments": case["envs"][:2], "pipelines": pipelines(case)}


META = {"real": REAL, "stub": STUB, "assumptions": ASSUMPTIONS, "interleavings": "single core: 1"}
