"""C17 - loop restructuring preserves the executed operation sequence (DESIGN.md §5 C17)."""
from __future__ import annotations

from .. import compat
from ..effect_machine import EffectMachine, Ref
from ..gen import loops as LG
from ..interp import Core, StepLimit, Violation, check_dominance
from .accfg_common import Rejected, compile_variant, digest_of, merge, new_outcome

ID = "C17"
BUDGET = {"quick": 5000, "thorough": 100000}
K_ENVS = {"quick": 4, "thorough": 8}
MIN_NONTRIVIAL = {"quick": 200, "thorough": 2000}
RULE = (
    "programs: seeded loop nests up to depth 3 (constant and dynamic lb/ub/step, ub not a multiple of step, lb != 0; tagged test.op effect ops "
    "before/after/between inner loops; scf.if regions (condition on an induction variable) around ops and loops; in 15% of the programs a one-element counter buffer that is incremented through a view of it and read directly, the value read going to an effect op; allocs, memref.dim, subviews and affine.min sizes depending or not on induction variables) compiled with "
    "pipeline-canonicalize-for, reuse-memref-allocs, or both; original and transformed function are executed under K environments (runtime "
    "bounds, argument shapes) and the traces of (op tag, evaluated index operands, allocation site + offsets + sizes of memref operands) must be "
    "identical; buffers that are freed again in the body they are allocated in (half of a third of the programs): (also in both branches of a conditional, also through a memref.cast) and buffer-rotation loops (the loop carries the previous buffer, allocates a new one - always, only in some iterations through an scf.if, or handed on through a memref.cast - and frees the old one): no double free, no use after a free. Degenerate use of the simulator: one core, no schedule, no fault. non-trivial = the pass changed the IR and >= 1 effect op ran; "
    "distinct = hash of (program, environments)."
)
PIPES = ["pipeline-canonicalize-for", "reuse-memref-allocs", "pipeline-canonicalize-for,reuse-memref-allocs", "reuse-memref-allocs,pipeline-canonicalize-for"]


def gen_case(rng, tier):
    prof = LG.default_profile(rng)
    ast = LG.LoopGen(rng, prof).program()
    fam = prof["family"]
    pipe = 0 if fam == "canon" else (1 if fam == "reuse" else rng.choice([2, 3]))
    return {"ast": ast, "pipe": pipe, "envs": [LG.gen_env(rng) for _ in range(K_ENVS[tier])]}


def args_for(env):
    return [Ref(("arg", 0), [0, 0], env["dims"]), env["n"][0], env["n"][1], env["l"], env["t"]]


def execute(case):
    out = new_outcome()
    src = LG.emit(case["ast"])
    spec = PIPES[case["pipe"]]
    try:
        P = compile_variant(src, None)
        S = compile_variant(src, spec)
    except Rejected as r:
        out["status"] = "rejected"
        out["rejected"] = f"{r.stage}:{r.cls}"
        return out
    changed = compat.text(P) != compat.text(S)
    dom = check_dominance(S)
    if dom:
        out.update(status="violation", oracle="dominance", message=f"after {spec}: {dom}")
        return out
    digests = []
    events = 0
    for i, env in enumerate(case["envs"]):
        out["runs"] += 2
        out["zero_fault_runs"] += 2
        a = EffectMachine(P)
        a.run_single("f", args_for(env), Core(0))
        b = EffectMachine(S)
        b.step_limit = max(20_000, 40 * a.steps)
        try:
            b.run_single("f", args_for(env), Core(0))
        except Violation as v:
            out.update(status="violation", oracle=v.oracle, message=v.message, env_index=i)
            return out
        except StepLimit:
            # the original finished; a transformed program that needs > 40x its steps executes other operations
            out.update(status="violation", oracle="effect-trace", message=f"the transformed program executes more than 40x the {a.steps} steps of the original (first {len(b.hist)} events vs {len(a.hist)} in total)", env_index=i)
            return out
        if a.hist != b.hist:
            k = next((j for j, (x, y) in enumerate(zip(a.hist, b.hist)) if x != y), min(len(a.hist), len(b.hist)))
            x = a.hist[k] if k < len(a.hist) else None
            y = b.hist[k] if k < len(b.hist) else None
            out.update(status="violation", oracle="effect-trace", message=f"event {k}: original executes {x!r}, transformed executes {y!r} (lengths {len(a.hist)} / {len(b.hist)})", env_index=i)
            return out
        events += len(a.hist)
        out["steps"] += a.steps + b.steps
        merge(out["probes"], b.probes)
        digests.append(digest_of(b.hist))
    out["nontrivial"] = bool(changed and events)
    out["digest"] = digest_of(digests)
    return out


def _kf_c17_1(case, outcome):
    return bool(case["pipe"] != 1 and outcome.get("oracle") == "effect-trace" and LG.has_imperfect_const_nest(case["ast"]["body"]))


def _kf_c17_2(case, outcome):
    return bool(case["pipe"] != 0 and outcome.get("oracle") == "effect-trace" and LG.has_min_sized_subview_dim_alloc(case["ast"]["body"]))


TRIGGERS = {"merge_for_loops_imperfect_nest": _kf_c17_1, "affine_min_size_replaced_by_upper_bound": _kf_c17_2}


def shrink(case):
    if len(case["envs"]) > 1:
        for i in range(len(case["envs"])):
            yield dict(case, envs=[case["envs"][i]])
    for nb in LG.shrink_body(case["ast"]["body"]):
        if nb:
            yield dict(case, ast={"body": nb})
    if case["pipe"] >= 2:
        yield dict(case, pipe=0)
        yield dict(case, pipe=1)


def sample_of(case):
    return {"program": LG.emit(case["ast"]), "pipeline": PIPES[case["pipe"]], "environments": case["envs"][:2]}


META = {
    "real": ["snaxc/transforms/pipeline/pipeline_canonicalize_for.py", "snaxc/transforms/reuse_memref_allocs.py"],
    "stub": ["IR interpreter + effect-trace machine (simsnax/effect_machine.py)", "xDSL 0.70.0 with the irdl_options shim"],
    "assumptions": [
        "A3 scf.for uses signed < and a positive step",
        "allocations are identified by site and are not themselves trace events (hoisting them is the transformation); the sizes a buffer was allocated with are visible through every op that uses it",
        "no schedule or fault dimension: distinct_interleavings = 1 (DESIGN.md 1.3 degenerate fit)",
    ],
    "interleavings": "single core: 1",
}
