"""C15 - pipelined double-buffered loops equal the sequential loop (DESIGN.md §5 C15)."""
from __future__ import annotations

from .. import compat
from ..cluster import BufferMachine, Cluster, View
from ..gen import pipeline as PL
from ..interp import Core, Violation
from ..tape import Tape
from .accfg_common import Rejected, compile_variant, digest_of, merge, new_outcome

ID = "C15"
BUDGET = {"quick": 2000, "thorough": 50000}
K_ENVS = {"quick": 5, "thorough": 10}
MIN_NONTRIVIAL = {"quick": 150, "thorough": 1500}
PIPE = "construct-pipeline,pipeline-duplicate-buffers,unroll-pipeline"
RULE = (
    "programs: seeded pipeline-shaped loops (index computations: tile subviews of 3 L3 arguments; 2-4 barrier-separated stages of "
    "memref.copy / linalg.generic on L1 temporaries, read-only, write-only and (to be rejected) non-adjacent buffers; constant or dynamic "
    "bounds) compiled with construct-pipeline,pipeline-duplicate-buffers,unroll-pipeline (variant P additionally prefixed by "
    "pipeline-canonicalize-for; variant B followed by insert-sync-barrier,dispatch-regions and executed literally). 2-3 cores run the result on "
    "the simulated cluster under K seeded schedules (stalls biased to the first action after a barrier, burst 1/whole); environments: lb in "
    "{0,1,3}, step in {1,2}, trip counts 0..6 including < #stages; in an eighth of the programs a temporary of the loop is read once more behind the loop, in a tenth the consumer stage reads its temporary through a view taken in front of the loop (must be left alone). Oracles: multiset of (stage op, external tile, data read) equals the "
    "sequential loop's; final contents of the function arguments equal; no external cell outside those the sequential loop touched; race "
    "monitor; barrier deadlock. non-trivial = the loop was pipelined and >= 1 iteration ran; distinct = hash of (program, environments)."
)


def gen_case(rng, tier):
    ast = PL.gen_ast(rng)
    envs = [PL.gen_env(rng, ast["nst"]) for _ in range(K_ENVS[tier])]
    envs[0]["stall"] = False
    r = rng.random()
    variant = "B" if r < 0.2 else ("P" if r < 0.4 else "A")
    return {"ast": ast, "envs": envs, "variant": variant}


def args_for(m: BufferMachine, env):
    n = PL.E * PL.TILES
    vs = []
    for name in ("A", "O", "O2"):
        b = m.new_buffer(name, n, external=True)
        vs.append(View(b, 0, [n], [1]))
    for name in ("G", "P"):
        g = m.new_buffer(name, PL.E, external=True)
        vs.append(View(g, 0, [PL.E], [1]))
    return vs + [env["lb"], env["ub"], env["step"]]


def _ext(descr):
    return descr if descr[0] in ("A", "O", "O2", "G", "P") else ("tmp",)


def op_multiset(log):
    out = sorted(((tag, tuple(_ext(d) for d in descr), read) for _, tag, descr, read in log), key=repr)
    return out


def touched(log):
    cells = set()
    for _, tag, descr, read in log:
        for d in descr:
            if d[0] in ("A", "O", "O2", "G", "P"):
                v = View(type("B", (), {"name": d[0]})(), d[1], d[2], d[3])
                cells.update((d[0], i) for i in v.indices())
    return cells


def specs(case, n):
    pre = "pipeline-canonicalize-for," if case["variant"] == "P" else ""
    post = f",insert-sync-barrier,dispatch-regions{{nb_cores={n}}}" if case["variant"] == "B" else ""
    return pre + PIPE + post


def execute(case):
    out = new_outcome()
    ast = case["ast"]
    digests = []
    inter = set()
    ran = 0
    cache: dict = {}
    guarded: set = set()
    for i, env in enumerate(case["envs"]):
        n = env["cores"]
        key = (n if case["variant"] == "B" else 0, (env["lb"], env["ub"], env["step"]) if ast["const_bounds"] else None)
        if key not in cache:
            src = PL.emit(ast, env)
            try:
                P = compile_variant(src, None)
                S = compile_variant(src, specs(case, n))
            except Rejected as r:
                if i == 0 or not ast["const_bounds"]:
                    out["status"] = "rejected"
                    out["rejected"] = f"{r.stage.split(',')[-1] if r.stage != 'parse' else 'parse'}:{r.cls}"
                    return out
                cache[key] = None
                continue
            cache[key] = (P, S, "pipeline." not in compat.text(S) and compat.text(P) != compat.text(S))
        if cache[key] is None:
            continue
        P, S, changed = cache[key]
        out["runs"] += 2
        ref = BufferMachine(P, 1, sequential=True)
        ref_core = Core(0)
        ref.run_single("f", args_for(ref, env), ref_core)
        if key not in guarded:
            # workload discipline: the loop as written (stages separated by barriers) must itself be race free
            guarded.add(key)
            orig = BufferMachine(P, n, sequential=False, roles="rules", burst=1)
            genv = env if ast["const_bounds"] else dict(env, lb=0, ub=2, step=1)
            try:
                Cluster(orig, args_for(orig, genv), Tape(seed=1), stall=False).run()
            except Violation as v:
                out["status"] = "rejected"
                out["rejected"] = f"workload:{v.oracle}-in-original"
                return out
        sub = BufferMachine(S, n, sequential=False, roles="literal" if case["variant"] == "B" else "rules", burst=env["burst"])
        tape = Tape(seed=env["sched"], replay=env.get("tape"), strict=False)
        cl = Cluster(sub, args_for(sub, env), tape, stall=env["stall"])
        out["zero_fault_runs"] += 1 + (not env["stall"] and not env["burst"])
        if env["burst"]:
            sub.fault("burst")
        try:
            inter.add(cl.run())
        except Violation as v:
            out.update(status="violation", oracle=v.oracle, message=v.message, env_index=i, tape=[list(x) for x in tape.log])
            return out
        a, b = op_multiset(ref.oplog), op_multiset(sub.oplog)
        if a != b:
            miss = [x for x in a if x not in b][:2]
            extra = [x for x in b if x not in a][:2]
            out.update(status="violation", oracle="stage-executions", message=f"(stage op, tile, data read) multiset differs: missing {miss!r} unexpected {extra!r}", env_index=i)
            return out
        ta = sorted((h for h in ref_core.hist if h[0] == "test"), key=repr)
        for c_ in cl.cores:
            tb_ = sorted((h for h in c_.hist if h[0] == "test"), key=repr)
            if ta != tb_:
                miss = [x for x in ta if x not in tb_][:2]
                extra = [x for x in tb_ if x not in ta][:2]
                out.update(status="violation", oracle="global-ops", message=f"core {c_.id} executes other global ops than the sequential loop: missing {miss!r} (of {len(ta)}), unexpected {extra!r} (of {len(tb_)})", env_index=i)
                return out
        if sub.externals() != ref.externals():
            bad = sorted(k for k, v in ref.externals().items() if sub.mem.get(k) != v)[:3]
            out.update(status="violation", oracle="final-contents", message=f"cells {bad} end as {[sub.mem.get(k) for k in bad]}, sequential loop: {[ref.mem[k] for k in bad]}", env_index=i)
            return out
        extra = touched(sub.oplog) - touched(ref.oplog)
        if extra:
            out.update(status="violation", oracle="tile-range", message=f"cells outside the original iteration range touched: {sorted(extra)[:4]}", env_index=i)
            return out
        trips = PL.trips_of(env)
        ran += bool(trips) and changed
        if trips < ast["nst"]:
            out["probes"]["trips-lt-stages"] = out["probes"].get("trips-lt-stages", 0) + 1
        out["steps"] += ref.steps + sub.steps
        merge(out["probes"], sub.probes)
        merge(out["faults"], sub.faults)
        digests.append(digest_of(sorted(sub.externals().items(), key=repr)))
    out["interleavings"] = sorted(inter)
    out["nontrivial"] = bool(ran)
    out["digest"] = digest_of(digests)
    return out


def shrink(case):
    if len(case["envs"]) > 1:
        for i in range(len(case["envs"])):
            yield dict(case, envs=[case["envs"][i]])
    if len(case["envs"]) == 1:
        for e in PL.shrink_env(case["envs"][0]):
            yield dict(case, envs=[e])
    if case["variant"] != "A":
        yield dict(case, variant="A")
    for a in PL.shrink_ast(case["ast"]):
        yield dict(case, ast=a)
    if case["ast"]["const_bounds"]:
        yield dict(case, ast=dict(case["ast"], const_bounds=False))
    elif case["ast"].get("dyn_ub"):
        yield dict(case, ast=dict(case["ast"], dyn_ub=False))


def sample_of(case):
    return {"program": PL.emit(case["ast"], case["envs"][0]), "variant": case["variant"], "pipeline": specs(case, case["envs"][0]["cores"]), "environments": case["envs"][:2]}


META = {
    "real": [
        "snaxc/transforms/pipeline/construct_pipeline.py, pipeline_duplicate_buffers.py, unroll_pipeline.py, pipeline_canonicalize_for.py",
        "snaxc/dialects/pipeline.py",
        "insert-sync-barrier, dispatch-regions (variant B)",
    ],
    "stub": [
        "IR interpreter; multi-core scheduler, cluster barrier, symbolic memory with race monitor (simsnax/cluster.py)",
        "core roles in variants A/P follow the dispatch rule re-stated in /verif",
        "xDSL 0.70.0 with the irdl_options shim",
    ],
    "assumptions": [
        "A4 copies / kernels are multi-burst, not atomic; A5 all-core barrier; A6 collective allocs",
        "temporaries the pass duplicates are not compared at the end (inherent to double buffering); their correctness is covered by the data-read multiset",
        "a NotImplementedError / RuntimeError of the pass (non-adjacent or multiply used buffers) is a rejection, not a violation",
    ],
    "interleavings": "hash of the per-run sequence of (core, barrier | memory burst | done) scheduler events",
}
