"""C11 - allocations are big enough and never overlap while live (DESIGN.md §5 C11)."""
from __future__ import annotations

import itertools

from .. import compat
from ..alloc_machine import AllocMachine
from ..gen import allocs as AG
from ..interp import Core, Violation
from ..layout import address, all_indices, shape_of, tsl_text
from .accfg_common import Rejected, digest_of, merge, new_outcome
from .c05 import EL as _EL, EL_ODD, a8_candidates, gen_steps

EL = dict(_EL, **EL_ODD)

ID = "C11"
BUDGET = {"quick": 5000, "thorough": 100000}
MIN_NONTRIVIAL = {"quick": 300, "thorough": 3000}
RULE = (
    "two case families (size2 = size with two dynamic dimensions of different run-time extents). size: one memref.alloc in L1 with a seeded type (row-major or #tsl.tsl with padding/gaps/offset, element widths "
    "8..64, rank 1-4, tile depth 1-3, optionally a dynamic outermost bound of one dimension (any) resolved at run time) is lowered by memref-to-snax; the emitted size "
    "arithmetic is executed and the snax.alloc size operand must be >= highest byte address the layout can touch + 1 (independent layout "
    "oracle). place: functions with 1-12 L1 allocs (different sizes, element types, alignments) at top level, subviews, casts and tagged uses "
    "in straight-line code and nested in scf.for (0-2 trips) / scf.if, joins of two buffers through arith.select / scf.if results / loop-carried values / scf.while results, in a fifth of the static / minimalloc / auto cases some buffers live in a second memory (L3, written as snax.alloc), in 15% of the cases a second function with its own buffers called from the first, lowered by memref-to-snax,canonicalize,snax-allocate{mode=static|"
    "minimalloc|auto|dynamic} for a seeded L1 window (start, capacity) and a seeded packing order of the stub solver; the result is executed "
    "on a memory with ownership shadow: every use (first and last byte of its view) must stay inside its buffer's allocation, inside the "
    "window and aligned as requested, and two buffers whose use intervals overlap in time must not overlap in address. Degenerate use of the "
    "simulator (one core, no interleaving). non-trivial = size case with a non-trivial layout, or place case with >= 2 allocations used; "
    "distinct = hash of the case."
)


def gen_case(rng, tier):
    if rng.random() < 0.08:
        # size family with two dynamic dimensions (different run-time extents): static steps laid out for a capacity
        rank = rng.choice([2, 2, 3])
        tb = [[rng.choice([2, 3, 4])] + [rng.choice([1, 2, 2, 4]) for _ in range(rng.choice([0, 0, 1]))] for _ in range(rank)]
        dd = sorted(rng.sample(range(rank), 2))
        kind = rng.choice(["tsl", "tsl", "none"])
        case = {"fam": "size2", "tb": tb, "el": rng.choice(list(EL)), "kind": kind, "dyn_dims": dd, "off": 0, "dyn_bounds": [rng.randint(1, tb[d][0]) for d in dd]}
        if kind == "tsl":
            case["steps"] = gen_steps(rng, tb, pad=rng.random() < 0.6)
            case["off"] = rng.choice([0, 0, 5])
        return case
    if rng.random() < 0.4:
        rank = rng.choice([1, 2, 2, 3, 4])
        depth = [rng.choice([1, 2, 2, 3]) for _ in range(rank)]
        tb = [[rng.choice([1, 2, 2, 3, 4]) for _ in range(depth[d])] for d in range(rank)]
        dyn = rng.random() < 0.3
        dd = rng.choice([0, 0] + list(range(rank))) if dyn else 0  # the dimension whose outermost tile bound is dynamic
        kind = rng.choice(["tsl", "tsl", "none"])
        case = {"fam": "size", "tb": tb, "el": rng.choice(list(EL)), "kind": kind, "dyn": dyn, "dyn_dim": dd, "off": 0, "dynstep": False, "dyn_bound": rng.choice([1, 2, 3, 5])}
        if kind == "tsl":
            case["steps"] = gen_steps(rng, tb, pad=rng.random() < 0.6, last=(dd, 0) if dyn else None)
            case["off"] = rng.choice([0, 0, 5])
            if dyn and rng.random() < 0.5 and a8_candidates(tb, case["steps"], dd).count(case["steps"][dd][0]) >= 1:
                case["dynstep"] = True
        return case
    mode = rng.choice(["static", "minimalloc", "minimalloc", "auto", "dynamic"])
    ast = AG.AllocGen(rng, views=rng.random() < 0.7, two_mem=rng.random() < 0.2 and mode != "dynamic", odd_align=rng.random() < 0.3 and mode != "dynamic", dyn_allocs=rng.choice([0, 0, 0.4]) if mode == "auto" else 0, ptr_uses=rng.choice([0, 0, 0.15])).program(callee=rng.random() < 0.15)
    return {
        "fam": "place",
        "ast": ast,
        "mode": mode,
        "window": [rng.choice([0x10000000, 0x10000040, 0x1000, 0x10000100, 0x10000020, 0x10000010]), rng.choice([65536, 4096, 1024, 512, 256, 200, 128, 100])],
        "solver": [rng.choice(["size", "start", "random"]), rng.randrange(1000)],
        "p": [rng.randrange(2), rng.randrange(2)],
    }


# ------------------------------------------------------------------ family "size"


def size_program(case):
    tb = case["tb"]
    shape = shape_of(tb)
    dd = case.get("dyn_dim", 0)
    sh = "x".join("?" if (case["dyn"] and d == dd) else str(x) for d, x in enumerate(shape))
    if case["kind"] == "none":
        lay = ""
    else:
        dyn = set()
        if case["dyn"]:
            dyn.add((dd, 0, "b"))
        if case["dynstep"]:
            dyn.add((dd, 0, "s"))
        lay = ", " + tsl_text(tb, case["steps"], case["off"], dyn)
    ty = f'memref<{sh}x{case["el"]}{lay}, "L1">'
    arg = "%d" if case["dyn"] else ""
    return (
        "builtin.module {\n  func.func @f(%n : index) {\n    %c0 = arith.constant 0 : index\n    %d = arith.addi %n, %c0 : index\n"
        f"    %0 = memref.alloc({arg}) {{alignment = 64 : i64}} : {ty}\n"
        f'    "test.op"(%0) {{vtag = 1 : i64}} : ({ty}) -> ()\n    func.return\n  }}\n}}'
    )


def size2_program(case):
    tb = case["tb"]
    shape = shape_of(tb)
    dd = case["dyn_dims"]
    sh = "x".join("?" if d in dd else str(x) for d, x in enumerate(shape))
    lay = "" if case["kind"] == "none" else ", " + tsl_text(tb, case["steps"], case["off"], {(d, 0, "b") for d in dd})
    ty = f'memref<{sh}x{case["el"]}{lay}, "L1">'
    return (
        "builtin.module {\n  func.func @f(%n0 : index, %n1 : index) {\n    %c0 = arith.constant 0 : index\n"
        "    %d0 = arith.addi %n0, %c0 : index\n    %d1 = arith.addi %n1, %c0 : index\n"
        f"    %0 = memref.alloc(%d0, %d1) {{alignment = 64 : i64}} : {ty}\n"
        f'    "test.op"(%0) {{vtag = 1 : i64}} : ({ty}) -> ()\n    func.return\n  }}\n}}'
    )


def run_size2(case, out):
    src = size2_program(case)
    try:
        ctx, mod = compat.parse(src)
        compat.run_passes(ctx, mod, "memref-to-snax")
    except Exception as e:
        out["status"] = "rejected"
        out["rejected"] = f"memref-to-snax:{type(e).__name__}"
        return out
    tb = [list(t) for t in case["tb"]]
    for d, b in zip(case["dyn_dims"], case["dyn_bounds"]):
        tb[d][0] = b
    shape = shape_of(tb)
    eb = EL[case["el"]]
    if case["kind"] == "none":
        need = eb
        for x in shape:
            need *= x
    else:
        need = max(address(idx, tb, case["steps"], case["off"]) for idx in all_indices(shape)) * eb + eb
    m = AllocMachine(mod)
    m.run_single("f", [shape[d] for d in case["dyn_dims"]], Core(0))
    out["runs"] = out["zero_fault_runs"] = 1
    if len(m.snax_allocs) != 1:
        out["status"] = "rejected"
        out["rejected"] = "memref-to-snax:alloc-not-converted"
        return out
    _, size, shapes, _ = m.snax_allocs[0]
    if size < need:
        out.update(status="violation", oracle="allocation-size", message=f"snax.alloc size operand evaluates to {size} bytes, the layout touches byte {need - 1} (needs {need})")
        return out
    if tuple(shapes) != tuple(shape):
        out.update(status="violation", oracle="allocation-shape", message=f"snax.alloc shape operands {shapes} differ from the buffer shape {shape}")
        return out
    out["steps"] = m.steps
    out["nontrivial"] = True
    out["digest"] = digest_of(size, need)
    return out


def run_size(case, out):
    src = size_program(case)
    try:
        ctx, mod = compat.parse(src)
        compat.run_passes(ctx, mod, "memref-to-snax")
    except Exception as e:
        out["status"] = "rejected"
        out["rejected"] = f"memref-to-snax:{type(e).__name__}"
        return out
    tb = [list(t) for t in case["tb"]]
    dd = case.get("dyn_dim", 0)
    if case["dyn"]:
        tb[dd][0] = case["dyn_bound"]
    shape = shape_of(tb)
    eb = EL[case["el"]]
    if case["kind"] == "none":
        need = eb
        for s in shape:
            need *= s
    else:
        need = max(address(idx, tb, case["steps"], case["off"]) for idx in all_indices(shape)) * eb + eb
    m = AllocMachine(mod)
    m.run_single("f", [shape[dd]], Core(0))
    out["runs"] = out["zero_fault_runs"] = 1
    if len(m.snax_allocs) != 1:
        out["status"] = "rejected"
        out["rejected"] = "memref-to-snax:alloc-not-converted"
        return out
    _, size, shapes, _ = m.snax_allocs[0]
    if size < need:
        out.update(status="violation", oracle="allocation-size", message=f"snax.alloc size operand evaluates to {size} bytes, the layout touches byte {need - 1} (needs {need})")
        return out
    if tuple(shapes) != tuple(shape):
        out.update(status="violation", oracle="allocation-shape", message=f"snax.alloc shape operands {shapes} differ from the buffer shape {shape}")
        return out
    out["steps"] = m.steps
    out["probes"]["size-exact" if size == need else "size-over"] = 1
    out["nontrivial"] = case["kind"] == "tsl" or len(shape) > 1
    out["digest"] = digest_of(size, need)
    return out


# ------------------------------------------------------------------ family "place"


def compile_place(case):
    from xdsl.dialects.builtin import StringAttr
    from xdsl.parser import Parser

    from snaxc.util.snax_memory import SnaxMemory

    compat.SOLVER_ORDER["mode"], compat.SOLVER_ORDER["seed"] = case["solver"]
    ctx = compat.main().ctx.clone()
    ctx.register_memory(SnaxMemory(StringAttr("L1"), capacity=case["window"][1], start=case["window"][0]))
    src = AG.emit(case["ast"], case["p"])
    try:
        mod = Parser(ctx, src).parse_module()
        mod.verify()
    except Exception as e:
        raise Rejected("parse", e)
    spec = f"memref-to-snax,canonicalize,snax-allocate{{mode={case['mode']}}}"
    try:
        compat.run_passes(ctx, mod, spec)
    except Exception as e:
        raise Rejected("snax-allocate", e)
    return mod


def run_place(case, out):
    try:
        mod = compile_place(case)
    except Rejected as r:
        out["status"] = "rejected"
        out["rejected"] = f"{r.stage}:{r.cls}"
        return out
    # one owner per memory: either the compiler hands out the addresses of L1 or the run-time (bump) allocator does - both start
    # at the base of the memory and do not know of each other
    rt_calls = sum(1 for o in mod.walk() if o.name == "func.call" and o.callee.string_value() == "snax_alloc_l1")
    still_open = sum(1 for o in mod.walk() if o.name == "snax.alloc" and str(o.memory_space) == '"L1"')
    placed = sum(1 for o in mod.walk() if o.name == "llvm.inttoptr" and o.input.owner.name == "arith.constant") if hasattr(mod, "walk") else 0
    if rt_calls and placed:
        out.update(status="violation", oracle="two-owners", message=f"{placed} buffer(s) are placed at compile-time addresses while {rt_calls} other(s) come from the run-time allocator of the same memory")
        return out
    if any(s_.get("dyn") for s_ in _walk(case["ast"]["body"])):
        # programs with a buffer of run-time size are judged by the static oracle only
        out["probes"]["mixed-sizes-static-oracle-only"] = 1
        out["probes"]["mode-" + case["mode"]] = 1
        out["nontrivial"] = bool(rt_calls)
        out["digest"] = digest_of(rt_calls, placed, still_open)
        return out
    m = AllocMachine(mod, rt_base=case["window"][0], rt_slack=0)
    try:
        m.run_single("f", list(case["p"]), Core(0))
    except Violation as v:
        out.update(status="violation", oracle=v.oracle, message=v.message)
        return out
    out["runs"] = out["zero_fault_runs"] = 1
    info = {s["site"]: s for s in _walk(case["ast"]["body"]) if s["k"] == "alloc"}
    if case["ast"].get("callee"):
        info.update({s["site"]: s for s in _walk(case["ast"]["callee"]["body"]) if s["k"] == "alloc"})
    start, cap = case["window"]
    uses: dict = {}
    for ev in m.events:
        if ev[0] == "use":
            _, t, lo, hi, root, tag = ev
            site = root[1]
            a = info[site]
            base = root[2]
            nbytes = a["n"] * AG.ELB[a["el"]]
            if lo < base or hi >= base + nbytes:
                out.update(status="violation", oracle="out-of-allocation", message=f"use {tag} touches bytes [{lo:#x}, {hi:#x}] outside its buffer (site {site}) at [{base:#x}, {base + nbytes:#x})")
                return out
            if case["mode"] != "dynamic":
                start, cap = (0x80000000, 10**9) if a.get("space") == "L3" else case["window"]  # L3 keeps the registered default window
                if base < start or base + nbytes > start + cap:
                    out.update(status="violation", oracle="outside-window", message=f"buffer of site {site} at [{base:#x}, {base + nbytes:#x}) lies outside the L1 window [{start:#x}, {start + cap:#x})")
                    return out
                if base % max(1, a["align"]):
                    out.update(status="violation", oracle="alignment", message=f"buffer of site {site} at {base:#x} is not aligned to {a['align']}")
                    return out
            u = uses.setdefault(site, [t, t, base, nbytes])
            if u[2] != base:
                out.update(status="violation", oracle="buffer-moved", message=f"buffer of site {site} is seen at {u[2]:#x} and at {base:#x}")
                return out
            u[1] = t
    for (sa, ua), (sb, ub) in itertools.combinations(sorted(uses.items()), 2):
        addr_overlap = not (ua[2] + ua[3] <= ub[2] or ub[2] + ub[3] <= ua[2])
        time_overlap = not (ua[1] < ub[0] or ub[1] < ua[0])
        if addr_overlap and time_overlap:
            out.update(
                status="violation",
                oracle="live-overlap",
                sites=[sa, sb],
                message=f"buffers of sites {sa} [{ua[2]:#x}, {ua[2] + ua[3]:#x}) used during steps [{ua[0]}, {ua[1]}] and {sb} [{ub[2]:#x}, {ub[2] + ub[3]:#x}) used during [{ub[0]}, {ub[1]}] overlap in address and in time",
            )
            return out
    out["steps"] = m.steps
    merge(out["probes"], m.probes)
    out["probes"]["mode-" + case["mode"]] = 1
    if len({u[2] for u in uses.values()}) < len(uses):
        out["probes"]["address-reused"] = 1
    out["nontrivial"] = len(uses) >= 2
    out["digest"] = digest_of(sorted((k, v[2]) for k, v in uses.items()))
    return out


def _walk(body):
    for s in body:
        yield s
        for key in ("body", "then", "else"):
            yield from _walk(s.get(key, []))


def execute(case):
    out = new_outcome()
    if case["fam"] == "size2":
        return run_size2(case, out)
    return run_size(case, out) if case["fam"] == "size" else run_place(case, out)


def _kf_c11_1(case, outcome):
    import re

    if case.get("fam") != "place" or case.get("mode") not in ("minimalloc", "auto") or outcome.get("oracle") != "live-overlap" or not case["ast"].get("callee"):
        return False
    sites = outcome.get("sites") or [int(x) for x in re.findall(r"sites (\d+) .* and (\d+) \[", outcome.get("message") or "")[0]]
    return (sites[0] >= 1000) != (sites[1] >= 1000)


TRIGGERS = {"minimalloc_restarts_at_zero_in_every_function": _kf_c11_1}


def shrink(case):
    if case["fam"] == "size2":
        return
    if case["fam"] == "size":
        if case["el"] != "i8":
            yield dict(case, el="i8")
        if case["off"]:
            yield dict(case, off=0)
        return
    for nb in AG.shrink_body(case["ast"]["body"]):
        yield dict(case, ast=dict(case["ast"], body=nb))
    if case["ast"].get("callee"):
        for nb in AG.shrink_body(case["ast"]["callee"]["body"]):
            yield dict(case, ast=dict(case["ast"], callee=dict(case["ast"]["callee"], body=nb)))
    if case["solver"][0] != "size":
        yield dict(case, solver=["size", 0])
    if case["window"] != [0x10000000, 65536]:
        yield dict(case, window=[0x10000000, 65536])


def sample_of(case):
    if case["fam"] == "size2":
        return {"family": "size (two dynamic dimensions)", "program": size2_program(case), "dyn_bounds": case["dyn_bounds"]}
    if case["fam"] == "size":
        return {"family": "size", "program": size_program(case), "dyn_bound": case["dyn_bound"]}
    return {"family": "place", "program": AG.emit(case["ast"], case["p"]), "conditions": case["p"], "mode": case["mode"], "window": case["window"], "solver_order": case["solver"]}


META = {
    "real": [
        "snaxc/transforms/memref_to_snax.py (size arithmetic)",
        "snaxc/transforms/snax_allocate.py (StaticAllocs, MiniMallocate lifetimes and dealloc insertion, DynamicAllocs, create_memref_struct)",
        "snaxc/dialects/tsl.py get_bound_ops / get_step_ops; xdsl canonicalize",
    ],
    "stub": [
        "IR interpreter + ownership-shadow memory (simsnax/alloc_machine.py); independent layout oracle (simsnax/layout.py)",
        "`minimalloc` solver replaced by a first-fit interval packer with seeded packing order (any valid packing is a legal answer)",
        "runtime allocator snax_alloc_l1 modelled as a bump allocator that ignores the alignment argument (as documented)",
        "xDSL 0.70.0 with the irdl_options shim",
    ],
    "assumptions": [
        "a tagged use touches the first and the last byte of the view it is given",
        "over-allocation is fine ('at least'); liveness of a buffer = from its first to its last dynamic use through any view or cast",
        "A8 for a dynamic TSL step; no schedule or fault dimension: distinct_interleavings = 1",
    ],
    "interleavings": "single core: 1",
}
