"""C14 - dispatch runs each operation on exactly the cores it belongs to (DESIGN.md §5 C14)."""
from __future__ import annotations

from .. import compat
from ..cluster import BufferMachine, Cluster
from ..gen import buffers as B
from ..interp import Core, Violation
from ..tape import Tape
from .accfg_common import Rejected, compile_variant, digest_of, merge, new_outcome

ID = "C14"
BUDGET = {"quick": 4000, "thorough": 80000}
K_ENVS = {"quick": 4, "thorough": 8}
MIN_NONTRIVIAL = {"quick": 200, "thorough": 2000}
RULE = (
    "programs: seeded buffer-family functions (memref.copy = data-mover op, linalg.generic = compute op, tagged test.op = global op, "
    "pre-placed barriers, scf.for / scf.if nesting <= 3, dispatchable ops adjacent and separated at any depth) compiled with "
    "dispatch-regions{nb_cores=N}, N in 2..5 (thorough: also followed by function-constant-pinning). The dispatched function is executed by "
    "all N cores on the simulated cluster under a seeded schedule with stalls; each core's history of executed tagged ops (with evaluated "
    "index operands) and barriers must equal the sequential history of the original program filtered by the rule "
    "(copy: core N-1 only; generic: core 0 only; everything else: every core); no barrier deadlock. Variants: functions grouped in a "
    "nested builtin.module; streaming accelerators registered under per-configuration names (acc_a / acc_b) with the same program "
    "compiled for the configuration with the names swapped just before in the same process (compilation history); contexts built by "
    "tools/config_parser.parse_config from a two-core hardware configuration (XDMA core and ALU core in either order). "
    "non-trivial = dispatching changed the IR and >= 1 dispatchable op executed; distinct = hash of (program, environments)."
)


def gen_case(rng, tier):
    prof = B.default_profile(rng, tier)
    prof["w_op"] = max(prof["w_op"], 1)
    prof["l3_kernels"] = True
    prof["multiblock"] = rng.random() < 0.2  # functions with several blocks (cf.br / cf.cond_br)
    prof["streams"] = rng.random() < 0.25  # dart streaming regions on snax_xdma (DM for extension kernels) / snax_alu (compute)
    prof["while_loops"] = rng.choice([0, 0, 0.4])  # counted loops written as scf.while
    prof["index_tables"] = rng.choice([0, 0, 0.2])  # copies of index-typed tables
    prof["stream_forms"] = rng.random() < 0.5  # ... unscheduled, scheduled or after layout resolution (dart.operation / schedule / access_pattern)
    prof["exec_region"] = rng.choice([0, 0, 0.3])
    prof["helper"] = rng.random() < 0.12 and not prof["multiblock"] and not prof.get("views")  # a private helper function with a body  # scf.execute_region with cf branches among the conditionals
    ast = B.BufGen(rng, prof).program()
    if rng.random() < 0.1:
        ast["core_query"] = True
    n = rng.choice([2, 2, 3, 3, 4, 5])
    envs = [B.gen_env(rng, n_cores=n) for _ in range(K_ENVS[tier])]
    envs[0]["stall"] = False
    case = {"ast": ast, "cores": n, "envs": envs, "pin": rng.random() < 0.2 and not prof["multiblock"]}
    if prof["streams"] and rng.random() < 0.5:
        case["bind"] = rng.choice(["ab", "ba", "config-xa", "config-ax"])  # the streaming accelerators are registered under names of this configuration
    if rng.random() < 0.15:
        case["nested_module"] = True  # the functions are grouped in a module inside the top-level module (per-cluster code)
    return case


def roles_of(ast):
    out = {}

    def walk(body):
        for s in body:
            if s["k"] == "copy":
                out[s["tag"]] = "dm"
            elif s["k"] == "gen":
                out[f'k{s["tag"]}'] = "compute"
            elif s["k"] == "stream":
                # a kernel-less XDMA transfer is an accelerator op that has to run on exactly one of the two special
                # cores (the tree runs it on the compute core; the statement does not say which one)
                out[s["tag"]] = "dm" if s["kind"] in ("xdma-add", "xdma-rescale-up", "xdma-rescale-down") else ("either" if s["kind"] in ("xdma-plain", "xdma-fused") else "compute")
            for key in ("body", "then", "else", "entry", "b1", "b2"):
                walk(s.get(key, []))

    walk(ast["body"])
    walk(ast.get("helper") or [])
    for b in ast.get("blocks", []):
        walk(b)
    return out


def args_for(machine: BufferMachine, env):
    bufs = []
    for i in range(B.N_ARGS):
        from ..cluster import View

        b = machine.new_buffer(f"a{i}", B.E, external=True)
        bufs.append(View(b, 0, [B.E], [1]))
    return bufs + list(env["n"]) + list(env["b"])


def expected(ref_hist, roles, c, n):
    out = []
    for h in ref_hist:
        if h[0] == "op":
            r = roles.get(h[1])
            if r == "either":
                continue
            if r == "dm" and c != n - 1:
                continue
            if r == "compute" and c != 0:
                continue
        out.append(h)
    return out


def first_diff(a, b):
    for k, (x, y) in enumerate(zip(a, b)):
        if x != y:
            return f"event {k}: expected {x!r}, executed {y!r}"
    if len(a) != len(b):
        longer, who = (a, "expected but not executed") if len(a) > len(b) else (b, "executed but not expected")
        return f"event {min(len(a), len(b))}: {longer[min(len(a), len(b))]!r} {who}"
    return None


def execute(case):
    out = new_outcome()
    src = B.emit(case["ast"])
    if case.get("nested_module"):
        src = "builtin.module {\n" + src.replace("builtin.module {", "builtin.module @cluster0 {", 1) + "\n}"
    bind = None
    if str(case.get("bind", "")).startswith("config"):
        # the context is the one snaxc builds from a hardware configuration: two cores, one with the XDMA and one with the ALU,
        # listed in either order
        bind = {"__config__": ["xdma", "alu"] if case["bind"] == "config-xa" else ["alu", "xdma"]}
    elif case.get("bind"):
        # this cluster configuration names its two streaming accelerators acc_a and acc_b; which of them is the XDMA differs
        # from one compilation of this process to the next
        x, a = ("acc_a", "acc_b") if case["bind"] == "ab" else ("acc_b", "acc_a")
        generic = src
        src = generic.replace('"snax_xdma"', f'"{x}"').replace('"snax_alu"', f'"{a}"')
        bind = {x: "xdma", a: "alu"}
    n = case["cores"]
    spec = f"dispatch-regions{{nb_cores={n}}}" + (",function-constant-pinning" if case.get("pin") else "")
    if bind and "__config__" not in bind:
        # the history of this process: the same program was compiled for the other configuration (names swapped) just before;
        # what a compilation produces must not depend on the compilations before it
        try:
            compile_variant(generic.replace('"snax_xdma"', f'"{a}"').replace('"snax_alu"', f'"{x}"'), spec, {a: "xdma", x: "alu"})
        except Rejected:
            pass
    try:
        P = compile_variant(src, None, bind)
        D = compile_variant(src, spec, bind)
    except Rejected as r:
        out["status"] = "rejected"
        out["rejected"] = f"{r.stage}:{r.cls}"
        return out
    changed = compat.text(P) != compat.text(D)
    roles = roles_of(case["ast"])
    digests = []
    dispatched = 0
    inter = set()
    for i, env in enumerate(case["envs"]):
        out["runs"] += 2
        ref = BufferMachine(P, 1, sequential=True, monitor=False)
        c0 = Core(0)
        ref.run_single("f", args_for(ref, env), c0)
        sub = BufferMachine(D, n, sequential=False, roles="literal", burst=env["burst"], monitor=False)
        tape = Tape(seed=env["sched"], replay=env.get("tape"), strict=False)
        cl = Cluster(sub, args_for(sub, env), tape, stall=env["stall"])
        out["zero_fault_runs"] += 1 + (not env["stall"])
        try:
            inter.add(cl.run())
        except Violation as v:
            out.update(status="violation", oracle=v.oracle, message=v.message, env_index=i, tape=[list(x) for x in tape.log])
            return out
        either = {t for t, r in roles.items() if r == "either"}
        for t in either:
            want = sum(1 for h in c0.hist if h == ("op", t))
            got = {c: sum(1 for h in cl.cores[c].hist if h == ("op", t)) for c in range(n)}
            owners = [c for c, k in got.items() if k]
            if want and (len(owners) != 1 or owners[0] not in (0, n - 1) or got[owners[0]] != want):
                out.update(status="violation", oracle="per-core-history", message=f"the kernel-less XDMA transfer {t} runs {want} times in the original; per-core executions after dispatch: {got} (must be one of cores 0 / {n - 1} only)", env_index=i)
                return out
        for c in range(n):
            d = first_diff(expected(c0.hist, roles, c, n), [h for h in cl.cores[c].hist if not (h[0] == "op" and h[1] in either)])
            if d:
                out.update(status="violation", oracle="per-core-history", message=f"core {c} of {n}: {d}", env_index=i)
                return out
        dispatched += sum(1 for h in c0.hist if h[0] == "op")
        out["steps"] += ref.steps + sub.steps
        merge(out["probes"], sub.probes)
        merge(out["faults"], sub.faults)
        digests.append(digest_of([cl.cores[c].hist for c in range(n)]))
    out["interleavings"] = sorted(inter)
    out["nontrivial"] = bool(changed and dispatched)
    out["digest"] = digest_of(digests)
    return out


def shrink(case):
    if case.get("nested_module"):
        yield {k: v for k, v in case.items() if k != "nested_module"}
    if case.get("bind") == "ba":
        yield dict(case, bind="ab")
    if case.get("bind") == "config-ax":
        yield dict(case, bind="config-xa")
    if len(case["envs"]) > 1:
        for i in range(len(case["envs"])):
            yield dict(case, envs=[case["envs"][i]])
    if len(case["envs"]) == 1:
        for e in B.shrink_env(case["envs"][0]):
            if e["cores"] == case["cores"]:
                yield dict(case, envs=[e])
    if case["cores"] > 2:
        yield dict(case, cores=case["cores"] - 1, envs=[dict(e, cores=case["cores"] - 1) for e in case["envs"]])
    for nb in B.shrink_body(case["ast"]["body"]):
        if case["ast"].get("helper") is None or any(x["k"] == "callh" for x in nb):
            yield dict(case, ast=dict(case["ast"], body=nb))
    if case["ast"].get("helper"):
        for nb in B.shrink_body(case["ast"]["helper"]):
            yield dict(case, ast=dict(case["ast"], helper=nb))
    if case["ast"].get("blocks"):
        b1, b2 = case["ast"]["blocks"]
        for nb in B.shrink_body(b1):
            yield dict(case, ast=dict(case["ast"], blocks=[nb, b2]))
        for nb in B.shrink_body(b2):
            yield dict(case, ast=dict(case["ast"], blocks=[b1, nb]))
    if case.get("pin"):
        yield dict(case, pin=False)


def sample_of(case):
    return {"program": B.emit(case["ast"]), "nb_cores": case["cores"], "environments": case["envs"][:2]}


META = {
    "real": ["snaxc/transforms/dispatch_regions.py", "snaxc/util/dispatching_rules.py", "snaxc/accelerators/acc_context.py (registry)", "snaxc/tools/config_parser.py (contexts built from a hardware configuration)", "xdsl function-constant-pinning (third party)"],
    "stub": [
        "IR interpreter (simsnax/interp.py), multi-core scheduler + cluster barrier + symbolic memory (simsnax/cluster.py)",
        "the dispatch rule used by the oracle is re-stated in /verif (copy -> last core, linalg.generic -> core 0)",
        "xDSL 0.70.0 with the irdl_options shim",
        "dacite (not installed): the repo's config dataclasses are built directly, dacite.from_dict is a pass-through",
    ],
    "assumptions": [
        "A5 the barrier releases when all nb_cores cores arrived",
        "single-block functions with scf control flow (what the anchored producers emit)",
        "interleaving does not enter the history oracle (stated, not hidden); it is randomised because the deadlock invariant depends on it",
    ],
    "interleavings": "hash of the per-run sequence of (core, barrier | memory burst | done) scheduler events",
}
