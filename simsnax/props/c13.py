"""C13 - cross-core dependencies are separated by a cluster barrier (DESIGN.md §5 C13)."""
from __future__ import annotations

from .. import compat
from ..cluster import BufferMachine, Cluster, View, is_undef
from ..gen import buffers as B
from ..interp import Core, Violation
from ..tape import Tape
from .accfg_common import Rejected, compile_variant, digest_of, merge, new_outcome

ID = "C13"
BUDGET = {"quick": 4000, "thorough": 80000}
K_ENVS = {"quick": 4, "thorough": 10}
MIN_NONTRIVIAL = {"quick": 200, "thorough": 2000}
RULE = (
    "programs: seeded buffer-family functions (memref.copy on the data-mover core, linalg.generic on the compute core, on 3 L3 arguments and "
    "3 L1 allocs; pre-existing barriers; scf.for nesting <= 3, scf.if; trip counts 0..3) compiled with insert-sync-barrier "
    "(variant A: cores skip ops of other cores by the dispatch rule re-stated in /verif; variant B: followed by dispatch-regions and executed "
    "literally; in an eighth of the A/B cases one operand is an arith.select of two local buffers; in a fifth of the cases tagged ops that every core executes read a local buffer; in a fifth of the A/B cases buffers are handed on under a new name (picked by an scf.if, ping-pong buffers rotated through iter_args); streaming regions appear in any of the three dart stages (operation / schedule / access_pattern); variants C / D: allocations placed late and explicit deallocs, compiled with the static-allocation slice of the snaxc pipeline "
    "insert-sync-barrier,memref-to-snax,canonicalize,snax-allocate{mode=minimalloc},insert-sync-barrier [,dispatch-regions] and executed on "
    "address-indexed L1 cells, so that two buffers the allocator put at one address are one piece of memory). N in 2..4 cores run the function on the simulated cluster under K seeded schedules with stalls and burst sizes 1/2/whole. "
    "Online: barrier-epoch race monitor on every memory cell, barrier deadlock. Afterwards: final contents of all buffers and the inputs every "
    "kernel/copy read equal the sequential single-core reference. non-trivial = the pass inserted >= 1 barrier and >= 2 cores accessed memory; "
    "distinct = hash of (program, environments)."
)


def gen_case(rng, tier):
    prof = B.default_profile(rng, tier)
    prof["w_op"] = rng.choice([0, 0, 1])
    prof["views"] = rng.random() < 0.3  # dependencies through subviews of one allocation
    prof["nested_views"] = rng.random() < 0.5  # ... and through views of views
    prof["reinterpret"] = rng.random() < 0.3  # ... taken with memref.reinterpret_cast instead of memref.subview
    prof["streams"] = rng.random() < 0.15  # streaming regions: XDMA extension kernels on the DM core, snax_alu on the compute core
    prof["stream_forms"] = rng.random() < 0.5  # ... unscheduled, scheduled or after layout resolution (dart.operation / schedule / access_pattern)
    prof["multiblock"] = rng.random() < 0.1  # several blocks (cf.cond_br): a barrier in one block does not cover the next
    prof["op_reads"] = rng.choice([0, 0, 0, 0, 0.5])  # ops executed by every core that read a local buffer
    if prof["op_reads"]:
        prof["w_op"] = max(prof["w_op"], 2)
    variant = rng.choices(["A", "B", "C", "D"], [55, 20, 17, 8])[0]
    prof["select"] = variant in "AB" and rng.random() < 0.12  # an alias that is one of two buffers (arith.select)
    prof["while_loops"] = rng.choice([0, 0, 0, 0.5]) if variant in "AB" else 0  # counted loops written as scf.while
    prof["gather"] = rng.choice([0, 0, 0, 0.3]) if variant in "AB" else 0  # kernels whose body loads from a captured local buffer
    handover = variant in "AB" and rng.random() < 0.2
    prof["rotation"] = 0.5 if handover else 0  # ping-pong buffers rotated through the iter_args of a loop
    prof["pick"] = 0.5 if handover else 0  # a conditional hands one of two local buffers on as its result
    if handover:
        prof["w_for"], prof["w_if"], prof["max_depth"] = max(prof["w_for"], 2), max(prof["w_if"], 1), max(prof["max_depth"], 1)
    if variant in "CD" and rng.random() < 0.5:
        prof["pick"] = 0.7  # also with static allocation: the picked buffer's address may be handed out again later
        prof["retire_picked"] = True
        prof["w_if"], prof["max_depth"] = max(prof["w_if"], 2), max(prof["max_depth"], 1)
    if variant in "CD":
        # static allocation: buffers allocated late / freed early so that the allocator hands the same address out twice
        prof.update(streams=False, multiblock=False, late_allocs=True, n_allocs=rng.choice([5, 6, 7] if prof.get("retire_picked") else [3, 4, 5]), p_dealloc=rng.choice([0.0, 0.0, 0.4]))
        prof["top_stmts"] = rng.randint(3, 8)
    if variant in "CD" and rng.random() < 0.3:
        prof["loop_allocs"] = 0.6  # a tile buffer allocated inside a loop body (one fixed address with static allocation)
        prof["w_for"], prof["max_depth"] = max(prof["w_for"], 3), max(prof["max_depth"], 1)
    ast = B.BufGen(rng, prof).program()
    envs = [B.gen_env(rng, zero_trips=prof["zero_trips"]) for _ in range(K_ENVS[tier])]
    envs[0]["stall"] = False
    case = {"ast": ast, "envs": envs, "variant": variant}
    if prof.get("loop_allocs"):
        case["alloc_mode"] = "static"
    if variant in "BD" and rng.random() < 0.5:
        case["to_func"] = True
    return case


def args_for(machine: BufferMachine, env):
    bufs = []
    for i in range(B.N_ARGS):
        b = machine.new_buffer(f"a{i}", B.E, external=True)
        bufs.append(View(b, 0, [B.E], [1]))
    return bufs + list(env["n"]) + list(env["b"])


def oplog_key(log, all_cores=None):
    # what every DM / compute op read, in program order per op tag (cores removed); ops that every core executes are kept
    # per core - the sequential reference (all_cores given) stands for each of them
    out: dict = {}
    for core, tag, descr, read in log:
        if isinstance(tag, tuple) and tag[0] == "global":
            for c in range(all_cores) if all_cores is not None else [core]:
                out.setdefault((tag, c), []).append((descr, read))
        else:
            out.setdefault(tag, []).append((descr, read))
    return out


STATIC = "insert-sync-barrier,memref-to-snax,canonicalize,snax-allocate{mode=minimalloc},insert-sync-barrier"


def static_spec(case):
    """allocations inside loop bodies are only placed by the static mode (minimalloc looks at the top level of a function)"""
    return STATIC.replace("minimalloc", "static") if case.get("alloc_mode") == "static" else STATIC


def same_or_undef(ref_val, sub_val):
    return is_undef(ref_val) or ref_val == sub_val


def compare_static(ref: BufferMachine, sub: BufferMachine):
    """static-allocation variants: buffers have no identity any more, only what flows through them does.  Wherever the
    sequential reference read / ends with data derived from uninitialised memory, any value is accepted."""
    re_, se = ref.externals(), sub.externals()
    bad = sorted(k for k in re_ if not same_or_undef(re_[k], se.get(k)))[:3]
    if bad:
        return "final-contents", f"cells {bad} of the function's arguments end as {[se.get(k) for k in bad]}, sequential reference {[re_[k] for k in bad]}"
    ro, so = oplog_key(ref.oplog, sub.N), oplog_key(sub.oplog)
    if set(ro) != set(so) or any(len(ro[t]) != len(so[t]) for t in ro):
        return "provenance", "the set of executed copies / kernels differs from the sequential reference"
    for t in ro:
        for k, ((_, r), (_, s_)) in enumerate(zip(ro[t], so[t])):
            if len(r) != len(s_) or not all(same_or_undef(a, b) for a, b in zip(r, s_)):
                return "provenance", f"execution {k} of op #{t} read other data than in the sequential reference (memory handed out twice, or overwritten too early)"
    return None


def execute(case):
    out = new_outcome()
    src = B.emit(case["ast"])
    static = case["variant"] in ("C", "D")
    try:
        P = compile_variant(src, None)
        S = compile_variant(src, static_spec(case) if static else "insert-sync-barrier")
    except Rejected as r:
        out["status"] = "rejected"
        out["rejected"] = f"{r.stage}:{r.cls}"
        return out
    changed = compat.text(P) != compat.text(S)
    digests = []
    inter = set()
    multi = 0
    compiled_b: dict = {}
    for i, env in enumerate(case["envs"]):
        n = env["cores"]
        out["runs"] += 2
        ref = BufferMachine(P, 1, sequential=True)
        ref.global_ops_read = True
        ref.taint = static
        ref.run_single("f", args_for(ref, env), Core(0))
        if case["variant"] in ("B", "D"):
            if n not in compiled_b:
                try:
                    # every other environment also runs snax-to-func (barriers become calls, deallocs disappear)
                    compiled_b[n] = compile_variant(src, f"{static_spec(case) if static else 'insert-sync-barrier'},dispatch-regions{{nb_cores={n}}}" + (",snax-to-func" if case.get("to_func") else ""))
                except Rejected as r:
                    out["status"] = "rejected"
                    out["rejected"] = f"{r.stage}:{r.cls}"
                    return out
            sub = BufferMachine(compiled_b[n], n, sequential=False, roles="literal", burst=env["burst"])
        else:
            sub = BufferMachine(S, n, sequential=False, roles="rules", burst=env["burst"])
        sub.global_ops_read = True
        tape = Tape(seed=env["sched"], replay=env.get("tape"), strict=False)
        cl = Cluster(sub, args_for(sub, env), tape, stall=env["stall"])
        out["zero_fault_runs"] += 1 + (not env["stall"] and not env["burst"])
        if env["burst"]:
            sub.fault("burst")
        try:
            inter.add(cl.run())
        except Violation as v:
            out.update(status="violation", oracle=v.oracle, message=v.message, env_index=i, details=v.details, tape=[list(x) for x in tape.log])
            return out
        if static:
            d = compare_static(ref, sub)
            if d:
                out.update(status="violation", oracle=d[0], message=d[1], env_index=i, tape=[list(x) for x in tape.log])
                return out
            reuse = len(set(sub.static_addrs.values())) < len(sub.static_addrs)
            out["probes"]["static-address-handed-out-twice"] = out["probes"].get("static-address-handed-out-twice", 0) + reuse
        elif sub.mem != ref.mem:
            bad = sorted(k for k in ref.mem if sub.mem.get(k) != ref.mem[k])[:3]
            out.update(status="violation", oracle="final-contents", message=f"cells {bad} end as {[sub.mem.get(k) for k in bad]}, sequential reference {[ref.mem[k] for k in bad]}", env_index=i)
            return out
        if not static and oplog_key(sub.oplog) != oplog_key(ref.oplog, n):
            out.update(status="violation", oracle="provenance", message="some copy/kernel read other data than in the sequential reference", env_index=i)
            return out
        cores_touching = {c for c, *_ in sub.oplog}
        multi += len(cores_touching) >= 2
        out["steps"] += ref.steps + sub.steps
        merge(out["probes"], sub.probes)
        merge(out["faults"], sub.faults)
        digests.append(digest_of(sorted(sub.mem.items(), key=repr)))
    out["interleavings"] = sorted(inter)
    out["nontrivial"] = bool(changed and multi)
    out["digest"] = digest_of(digests)
    return out


def shrink(case):
    if len(case["envs"]) > 1:
        for i in range(len(case["envs"])):
            yield dict(case, envs=[case["envs"][i]])
    if len(case["envs"]) == 1:
        for e in B.shrink_env(case["envs"][0]):
            yield dict(case, envs=[e])
    if case.get("to_func"):
        yield {k: v for k, v in case.items() if k != "to_func"}
    if case["variant"] in ("B", "D"):
        yield dict({k: v for k, v in case.items() if k != "to_func"}, variant="A" if case["variant"] == "B" else "C")
    for nb in B.shrink_body(case["ast"]["body"]):
        yield dict(case, ast=dict(case["ast"], body=nb))
    if case["ast"].get("cfg_rot"):
        yield dict(case, ast={k: v for k, v in case["ast"].items() if k != "cfg_rot"})
    if case["ast"].get("cfg_loop"):
        yield dict(case, ast={k: v for k, v in case["ast"].items() if k not in ("cfg_loop", "cfg_rot")})
    if case["ast"].get("blocks"):
        b1, b2 = case["ast"]["blocks"]
        for nb in B.shrink_body(b1):
            yield dict(case, ast=dict(case["ast"], blocks=[nb, b2]))
        for nb in B.shrink_body(b2):
            yield dict(case, ast=dict(case["ast"], blocks=[b1, nb]))


def sample_of(case):
    return {"program": B.emit(case["ast"]), "variant": case["variant"], "environments": case["envs"][:2]}


META = {
    "real": ["snaxc/transforms/snax_to_func.py (half of the B / D cases)", "snaxc/transforms/insert_sync_barrier.py", "snaxc/util/dispatching_rules.py", "snaxc/transforms/dispatch_regions.py (variants B, D)", "snaxc/transforms/memref_to_snax.py + snax_allocate.py MiniMallocate (variants C, D: life times, inserted deallocs, constant addresses)"],
    "stub": [
        "IR interpreter (simsnax/interp.py); multi-core scheduler, cluster barrier, symbolic memory with race monitor (simsnax/cluster.py)",
        "core roles in variant A follow the dispatch rule re-stated in /verif",
        "xDSL 0.70.0 with the irdl_options shim",
    ],
    "assumptions": [
        "A4 a memref.copy / kernel reads all inputs and writes all outputs, in bursts, not atomically",
        "A5 the barrier releases when all cores arrived",
        "A6 memref.alloc executed by several cores denotes one buffer and is not a synchronisation point",
        "memref.dealloc is a no-op (snax-to-func erases it); in the static-allocation variants the memory of a buffer is whatever address snax-allocate put into its descriptor, shared with every other buffer at that address",
        "static-allocation variants: the minimalloc package is absent; its stand-in is a first-fit packer over closed life times (lowest address first, so addresses are reused as often as possible); data derived from uninitialised memory in the sequential reference matches anything",
        "buffer contents are written only by data-mover and compute ops; a tagged op that every core executes and that is given a buffer reads all of it (a fifth of the cases); allocations sit at function top level",
    ],
    "interleavings": "hash of the per-run sequence of (core, barrier | memory burst | done) scheduler events",
}
