"""C20 - a merged processing element, configured as decoded, computes each kernel (DESIGN.md §5 C20).

History machine: state = the abstract phs.PEOp (real object, mutated by the real append_to_abstract_graph) plus a
model = the list of kernels merged so far.  Operations: merge(kernel), decode(j).  After every merge *all* earlier
kernels are decoded again and the configured PE is evaluated by an independent PE interpreter."""
from __future__ import annotations

import itertools
import os
import struct

from .. import compat
from .accfg_common import digest_of, new_outcome

ID = "C20"
BUDGET = {"quick": 2500, "thorough": 50000}
MIN_NONTRIVIAL = {"quick": 200, "thorough": 2000}
RULE = (
    "histories: 1-5 kernel bodies (1-3 integer add/sub/mul or float addf/subf/mulf operations over 2-3 data inputs with seeded operand "
    "routing; in a seventh of the histories kernels may ignore one of their inputs or (integer kernels) have a constant operand, in a tenth of the histories kernels may contain operations whose result nobody reads) are converted by convert_generic_body_to_phs and merged one after the other into one abstract "
    "PE by append_to_abstract_graph; after every merge every kernel merged so far is decoded again (decode_abstract_graph) and the abstract PE "
    "is evaluated under the decoded switch values by an independent PE interpreter on an exhaustive small grid plus seeded data points and "
    "compared with direct evaluation of the kernel; the number of decoded values must equal get_true_switches(). A history machine without "
    "schedule or faults (none exist for this object). non-trivial = >= 2 kernels merged and >= 1 mux or multi-operation choice created; "
    "distinct = hash of the history. After the last merge one SNAXPHSAccelerator object is built for the merged PE and asked for the switch values of every kernel in merge order and backwards (get_switch_values, the path the lowering uses; linalg.generic -> convert_generic_body_to_phs -> decode): whatever the object remembers between two questions must not change an answer."
)
M32 = 0xFFFFFFFF
IOPS = {"addi": lambda x, y: (x + y) & M32, "subi": lambda x, y: (x - y) & M32, "muli": lambda x, y: (x * y) & M32}


def _f32(x):
    return struct.unpack("f", struct.pack("f", x))[0]


FOPS = {"addf": lambda x, y: _f32(x + y), "subf": lambda x, y: _f32(x - y), "mulf": lambda x, y: _f32(x * y)}


def gen_kernel(rng, ops, nin, dead=False, partial=False, consts=False):
    ins = [f"%a{i}" for i in range(nin)]
    for _ in range(200):
        n = rng.randint(1, 3)
        vals = list(ins)
        body = []
        used = set()
        if consts:
            # a constant operand (integer kernels): ["const", value, None, name]
            body.append(["const", rng.choice([3, 7]), None, "%k0"])
            vals.append("%k0")
        for k in range(n):
            op = rng.choice(ops)
            x, y = rng.choice(vals), rng.choice(vals)
            if consts and k == n - 1 and "%k0" not in {b_ for b in body[1:] for b_ in (b[1], b[2])} | {x, y}:
                y = "%k0"
            body.append([op, x, y, f"%v{k}"])
            vals.append(f"%v{k}")
            used |= {x, y}
        if not set(ins) <= used and not partial:
            continue  # (partial: a kernel may ignore one of its inputs)
        ops_only = [b for b in body if b[0] != "const"]
        if not dead and any(not any(f"%v{k}" in (b[1], b[2]) for b in ops_only[k + 1 :]) for k in range(n - 1)):
            continue  # (dead: operations whose result nobody reads are allowed, they may even be the only reader of an input)
        return body
    return [[ops[0], ins[0], ins[1], "%v0"]] + ([[ops[0], "%v0", ins[2], "%v1"]] if nin == 3 else [])


def gen_case(rng, tier):
    flt = rng.random() < 0.3
    ops = list(FOPS if flt else IOPS)
    if rng.random() < 0.3:
        ops = ops[:2]
    nin = rng.choice([2, 2, 3])
    dead = rng.random() < 0.2  # kernels may contain operations whose result is not used
    partial = rng.random() < 0.15  # kernels may ignore one of their inputs
    consts = not flt and rng.random() < 0.15  # kernels with a constant operand (3 or 7)
    kernels = [gen_kernel(rng, ops, nin, dead and rng.random() < 0.5, partial and rng.random() < 0.5, consts and rng.random() < 0.7) for _ in range(rng.randint(1, 5))]
    pts = [[rng.randrange(1, 1000) for _ in range(nin)] for _ in range(6)]
    case = {"float": flt, "nin": nin, "kernels": kernels, "points": pts}
    if partial:
        case["unused_inputs"] = True
    return case


def kernel_eval(body, data, table):
    env = {f"%a{i}": v for i, v in enumerate(data)}
    for op, x, y, res in body:
        env[res] = x if op == "const" else table[op](env[x], env[y])
    return env[body[-1][3]]


def to_pe(body, nin, flt, generic_only=False):
    from xdsl.dialects.linalg import GenericOp
    from xdsl.parser import Parser
    from xdsl.pattern_rewriter import PatternRewriter

    from snaxc.phs.encode import convert_generic_body_to_phs

    ty = "f32" if flt else "i32"
    mt = f"memref<4x{ty}>"
    lines = "\n".join(f"  {res} = arith.constant {x} : {ty}" if op == "const" else f"  {res} = arith.{op} {x}, {y} : {ty}" for op, x, y, res in body)
    maps = ", ".join(["affine_map<(d0) -> (d0)>"] * (nin + 1))
    args = ", ".join([f"%a{i} : {ty}" for i in range(nin)] + [f"%o : {ty}"])
    names = ", ".join(f"%A{i}" for i in range(nin))
    src = (
        f'{names}, %O = "test.op"() : () -> ({", ".join([mt] * (nin + 1))})\n'
        f'linalg.generic {{indexing_maps = [{maps}], iterator_types = ["parallel"]}} ins({names} : {", ".join([mt] * nin)}) outs(%O : {mt}) {{\n'
        f"^bb0({args}):\n{lines}\n  linalg.yield {body[-1][3]} : {ty}\n}}"
    )
    mod = Parser(compat.main().ctx.clone(), src).parse_module()
    g = next(o for o in mod.walk() if isinstance(o, GenericOp))
    if generic_only:
        return g
    return convert_generic_body_to_phs(g, "acc", PatternRewriter(g))


def pe_eval(pe, data, switch_list, table):
    """Independent PE interpreter: choose = region by switch index, mux = lhs/rhs by switch; switches of single-choice
    choose ops are not part of the configuration (same "true switch" enumeration the hardware export uses)."""
    from snaxc.dialects import phs

    sw = {}
    it = iter(switch_list)
    for s in pe.get_switches():
        user = s.get_user_of_unique_use()
        if isinstance(user, phs.ChooseOp) and len(list(user.operations())) == 1:
            sw[s] = 0
        else:
            try:
                sw[s] = next(it)
            except StopIteration:
                return ("too-few-switch-values",)
    if list(it):
        return ("too-many-switch-values",)
    env = dict(zip(pe.data_operands(), data))
    env.update(sw)
    # the element is a dataflow graph (combinational hardware): evaluated in dependence order, not in block order
    pending = list(pe.body.block.ops)
    while pending:
        rest = []
        for op in pending:
            if any(o not in env for o in op.operands):
                rest.append(op)
                continue
            if isinstance(op, phs.ChooseOp):
                if env[op.switch] >= len(op.regions):
                    return ("switch-out-of-range",)
                reg = op.regions[env[op.switch]]
                inner = reg.block.first_op
                benv = dict(zip(reg.block.args, [env[o] for o in op.data_operands]))
                if inner.name == "arith.constant":
                    env[op.res[0]] = inner.value.value.data
                else:
                    f = table[inner.name.split(".")[1]]
                    env[op.res[0]] = f(benv[inner.operands[0]], benv[inner.operands[1]])
            elif isinstance(op, phs.MuxOp):
                env[op.res] = env[op.rhs] if env[op.switch] == 1 else env[op.lhs]
            elif isinstance(op, phs.YieldOp):
                return env[op.operands[0]]
            else:
                raise RuntimeError(op.name)
        if len(rest) == len(pending):
            return ("combinational-loop",)
        pending = rest
    return ("no-yield",)


def execute(case):
    from snaxc.dialects import phs
    from snaxc.phs.combine import append_to_abstract_graph
    from snaxc.phs.decode import MappingNotFoundError, decode_abstract_graph

    out = new_outcome()
    table = FOPS if case["float"] else IOPS
    nin, flt = case["nin"], case["float"]
    for k in case["kernels"]:
        used = {x for b in k if b[0] != "const" for x in (b[1], b[2])}
        if not {f"%a{i}" for i in range(nin)} <= used and not case.get("unused_inputs"):
            out["status"] = "rejected"
            out["rejected"] = "workload:kernel-with-unused-input"
            return out
    grid = list(itertools.product([0, 1, 2, 3, 5, 7], repeat=nin)) if nin == 2 else list(itertools.product([0, 1, 3, 6], repeat=3))
    points = [tuple(float(v) for v in p) if flt else tuple(p) for p in (grid + [tuple(p) for p in case["points"]])]
    abstract = None
    merged = []
    decodes = 0
    trace = []
    for step, kbody in enumerate(case["kernels"]):
        try:
            pe = to_pe(kbody, nin, flt)
            if abstract is None:
                abstract = pe
            else:
                append_to_abstract_graph(pe, abstract)
        except (AssertionError, NotImplementedError, ValueError, KeyError) as e:
            # a rejected merge changes nothing the property speaks about; the abstract PE may be half-modified: stop here
            out["probes"]["merge-rejected:" + type(e).__name__] = 1
            break
        except Exception as e:
            # not a refusal: the merge API itself breaks down on a history from the quantified domain (every such history is
            # "merged in any order, each then decoded"), so the switch values the statement promises cannot be obtained at all.
            # Only when the exception comes out of the subject's code - anything else is a harness error.
            import traceback

            frames = traceback.extract_tb(e.__traceback__)
            if frames and os.path.abspath(frames[-1].filename).startswith(os.path.abspath(compat.REPO) + os.sep):
                where = f"{os.path.relpath(frames[-1].filename, compat.REPO)}:{frames[-1].name}"
                out.update(status="violation", oracle="merge-crash", message=f"merging kernel {step} into the element raises {type(e).__name__} in {where}: {str(e)[:120]}")
                return out
            raise
        merged.append(kbody)
        out["probes"]["merges"] = out["probes"].get("merges", 0) + 1
        for j, kb in enumerate(merged):
            decodes += 1
            try:
                sw = list(decode_abstract_graph(abstract, to_pe(kb, nin, flt)))
            except MappingNotFoundError as e:
                out.update(status="violation", oracle="undecodable", message=f"after merging kernel {step}, kernel {j} (merged earlier) can no longer be decoded: {e}")
                return out
            except AssertionError as e:
                out.update(status="violation", oracle="undecodable", message=f"after merging kernel {step}, decoding kernel {j} raises AssertionError: {str(e)[:120]}")
                return out
            if len(sw) != abstract.get_true_switches():
                out.update(status="violation", oracle="switch-count", message=f"decode returned {len(sw)} values, the PE reports {abstract.get_true_switches()} true switches")
                return out
            for p in points:
                got = pe_eval(abstract, p, sw, table)
                want = kernel_eval(kb, p, table)
                if got != want:
                    out.update(
                        status="violation",
                        oracle="pe-function",
                        message=f"after merging kernel {step}, the PE configured for kernel {j} with switches {sw} computes {got!r} on inputs {p}, the kernel computes {want!r}",
                    )
                    return out
            trace.append((step, j, tuple(sw)))
    if abstract is not None and len(merged) >= 2:
        # the way the lowering obtains the values: one accelerator object for the merged PE, asked for one kernel after the
        # other (in merge order, then backwards) - whatever it remembers between two questions must not change an answer
        from ..gen import accel_cfg as A

        class _Spec:
            def get_streamer_config(self_inner):
                return A.build({"kind": "alu", "streamers": [{"type": "r", "temporal": ["n"], "spatial": [1], "opts": []}]}).streamer_config

        try:
            from snaxc.accelerators.snax_phs import SNAXPHSAccelerator

            acc = SNAXPHSAccelerator(abstract, _Spec())
        except Exception as e:  # the constructor is not what this property is about
            out["probes"]["accelerator-object-not-built:" + type(e).__name__] = 1
            acc = None
        if acc is not None:
            for j, kb in list(enumerate(merged)) + list(enumerate(merged))[::-1]:
                decodes += 1
                try:
                    sw = [int(v.owner.value.value.data) for _, v in acc.get_switch_values(to_pe(kb, nin, flt, generic_only=True))]
                except MappingNotFoundError as e:
                    out.update(status="violation", oracle="undecodable", message=f"the accelerator object of the merged PE cannot decode kernel {j}: {e}")
                    return out
                for p in points:
                    got = pe_eval(abstract, p, sw, table)
                    want = kernel_eval(kb, p, table)
                    if got != want:
                        out.update(status="violation", oracle="pe-function", message=f"asked through the accelerator object (kernel {j} after the others), the PE configured with switches {sw} computes {got!r} on inputs {p}, the kernel computes {want!r}")
                        return out
            out["probes"]["decoded-through-accelerator-object"] = 1
    out["runs"] = decodes
    out["zero_fault_runs"] = decodes
    out["steps"] = decodes * len(points)
    if abstract is not None:
        muxes = sum(1 for o in abstract.body.block.ops if isinstance(o, phs.MuxOp))
        multi = sum(1 for o in abstract.body.block.ops if isinstance(o, phs.ChooseOp) and len(list(o.operations())) > 1)
        out["probes"]["muxes"] = muxes
        out["probes"]["multi-op-chooses"] = multi
        out["nontrivial"] = len(merged) >= 2 and (muxes + multi) > 0
    out["digest"] = digest_of(trace)
    return out


def shrink(case):
    ks = case["kernels"]
    for i in range(len(ks)):
        if len(ks) > 1:
            yield dict(case, kernels=ks[:i] + ks[i + 1 :])
    for i, k in enumerate(ks):
        if len(k) > 1:
            # drop the last op of a kernel when the result stays well formed
            nk = k[:-1]
            yield dict(case, kernels=ks[:i] + [nk] + ks[i + 1 :])
    if case["points"]:
        yield dict(case, points=[])


def sample_of(case):
    return {"history": [{"merge": k} for k in case["kernels"]], "float": case["float"], "data_inputs": case["nin"]}


META = {
    "real": ["snaxc/phs/combine.py (append_to_abstract_graph, uncollide_inputs)", "snaxc/phs/decode.py", "snaxc/phs/encode.py", "snaxc/dialects/phs.py (PEOp, ChooseOp, MuxOp, get_true_switches)"],
    "stub": ["PE interpreter and kernel evaluator (simsnax/props/c20.py)", "xDSL 0.70.0 with the irdl_options shim"],
    "assumptions": [
        "finite, non-NaN data inputs; float kernels evaluated in f32",
        "a kernel counts as merged only if append_to_abstract_graph returned normally; a merge refused with AssertionError / NotImplementedError / ValueError / KeyError ends the history (none occurs on the unchanged tree), any other exception out of the merge code is reported (merge-crash)",
        "history machine: no schedule, no fault (none exist for this object): distinct_interleavings = 1",
    ],
    "interleavings": "single-threaded history: 1",
}
