"""C12 - materialised casts deliver the right data to every consumer (DESIGN.md §5 C12)."""
from __future__ import annotations

from .. import compat
from ..cluster import BufferMachine, View, is_undef
from ..interp import Core, Violation, check_dominance
from ..layout import address, all_indices, shape_of, tsl_text
from .accfg_common import Rejected, compile_variant, digest_of, merge, new_outcome

ID = "C12"
BUDGET = {"quick": 5000, "thorough": 100000}
K_ENVS = {"quick": 3, "thorough": 6}
MIN_NONTRIVIAL = {"quick": 300, "thorough": 3000}
E = 4
T = f"memref<{E}xi32>"
RULE = (
    "two case families. kernels: public functions with 3 memref arguments (no memory space), local allocs and 1-12 linalg.generic kernels "
    "(1-2 inputs; in-place kernels (the same buffer on both sides); in a quarter of the cases loop bodies may read a local before - in program order - the kernel that fills it (loop-carried data; what the reference read from uninitialised memory matches anything) and reads of local buffers go through a layout cast; in a quarter of the cases every kernel operand standing for 1-3 of the arguments gets its own snax.layout_cast to a tiled layout on top of the L1 cast - chains of casts, inserted between set-memory-space and realize-memref-casts as set-memory-layout would; in a quarter of the cases 30% of the kernels accumulate, i.e. read their own output) in straight-line code and scf.for nests (0-2 trips), compiled with set-memory-space,realize-memref-casts[,clear-memory-space]; "
    "reference = the program as written (kernels operate on the arguments directly), subject = the compiled program where every alloc is a "
    "distinct buffer holding site-tagged garbage and copies move contents; both executed on symbolic buffer contents. Oracles: static - SSA "
    "dominance of the output, every linalg operand in L1, argument types in L3; data - every kernel execution reads the provenance the "
    "reference read and the arguments end with the reference's contents (judged only for programs in which every argument's first use is a "
    "read or it is never read; other failures are printed as OBSERVATION). constants: snax.layout_cast of an arith.constant / memref.global to "
    "a dense static #tsl.tsl layout, compiled with realize-memref-casts; the dense bytes of the transformed constant are decoded with an "
    "independent layout oracle and every logical element must equal the original. Degenerate use of the simulator (one core, no interleaving). "
    "non-trivial = a copy or transformed constant was produced and >= 1 kernel ran; distinct = hash of the case."
)


# ------------------------------------------------------------------ family kernels


class KGen:
    def __init__(self, rng, accum=0.0, inplace=0.0, uninit=0.0, views=0.0):
        self.inplace, self.uninit, self.views = inplace, uninit, views
        self.r = rng
        self.n = 0
        self.tag = 0
        self.bufs = ["%a0", "%a1", "%a2"]
        self.written: set[str] = set()
        self.accum = accum

    def stmt(self, depth, top):
        r = self.r
        k = r.choices(["gen", "gen2", "alloc", "for"], [5, 3, (2 if self.uninit or self.views else 1) if top else 0, (4 if self.uninit else 2) if depth < 2 else 0])[0]
        if k == "alloc":
            self.n += 1
            b = f"%b{self.n}"
            self.bufs.append(b)
            return {"k": "alloc", "name": b, "site": self.n}
        if k == "for":
            self.n += 1
            return {"k": "for", "iv": f"%i{self.n}", "ub": r.choice(["%n0", "%n1"]), "body": [self.stmt(depth + 1, False) for _ in range(r.randint(1, 3))]}
        self.tag += 1
        full = [b for b in self.bufs if b.startswith("%b") and b in self.written]
        if self.views and full and r.random() < self.views:
            # a kernel on halves of local buffers (subviews); both buffers are completely filled already
            src, dst = r.choice(full), r.choice(full)
            so = r.choice([0, 2])
            return {"k": "vgen", "src": src, "soff": so, "dst": dst, "doff": (2 - so) if src == dst else r.choice([0, 2]), "tag": self.tag}
        # locals are written before they are read (uninitialised reads are not comparable)
        readable = [b for b in self.bufs if b.startswith("%a") or b in self.written]
        if self.uninit and depth > 0 and r.random() < self.uninit:
            # loop-carried data: inside a loop a local may be read before (in program order) the kernel that fills it
            readable = list(self.bufs)
        nin = 1 if k == "gen" else 2
        ins = [r.choice(readable) for _ in range(nin)]
        outs = [b for b in self.bufs if b not in ins]
        if self.views and r.random() < 0.5 and any(b.startswith("%b") for b in outs):
            outs = [b for b in outs if b.startswith("%b")]  # fill local buffers first, there is nothing to take views of otherwise
        out = r.choice(outs)
        if self.inplace and r.random() < self.inplace:
            out = ins[0]  # in place: the same buffer on the input and on the output side
        st = {"k": "gen", "ins": ins, "out": out, "tag": self.tag}
        if getattr(self, "castin", 0) and ins[0].startswith("%a") and r.random() < self.castin:
            st["castin"] = True
        if self.accum and r.random() < self.accum and (out.startswith("%a") or out in self.written):
            st["acc"] = True  # out = f(ins, out): the output is read as well
        if depth == 0:
            self.written.add(out)
        return st

    def program(self):
        return {"body": [self.stmt(0, True) for _ in range(self.r.randint(2, 8))]}


TD = "memref<2x?xi32>"  # static dimension in front of a dynamic one


TSTR = f"memref<{E}xi32, strided<[2], offset: 1>>"  # an argument that is a strided window of a larger buffer
TV = "memref<2xi32, strided<[1], offset: {o}>>"


def kernels_emit(ast):
    L = []
    dyn = bool(ast.get("dyn"))
    T = TD if dyn else globals()["T"]
    strided = {f"%a{i}" for i in ast.get("strided_args", [])}

    def ty(b):
        return TSTR if b in strided else T
    amap = "affine_map<(d0, d1) -> (d0, d1)>" if dyn else "affine_map<(d0) -> (d0)>"
    iters = '"parallel", "parallel"' if dyn else '"parallel"'

    def e(ind, s):
        L.append("  " * ind + s)

    def stmts(ind, body):
        for s in body:
            if s["k"] == "alloc":
                e(ind, f'{s["name"]} = memref.alloc({"%dyn" if dyn else ""}) {{vsite = {s["site"]} : i64}} : {T}')
            elif s["k"] == "for":
                e(ind, f'scf.for {s["iv"]} = %c0 to {s["ub"]} step %c1 {{')
                stmts(ind + 1, s["body"])
                e(ind, "}")
            elif s["k"] == "vgen":
                t_ = s["tag"]
                e(ind, f'%vs{t_} = memref.subview {s["src"]}[{s["soff"]}][2][1] : {T} to {TV.format(o=s["soff"])}')
                e(ind, f'%vd{t_} = memref.subview {s["dst"]}[{s["doff"]}][2][1] : {T} to {TV.format(o=s["doff"])}')
                e(
                    ind,
                    f'linalg.generic {{indexing_maps = [{amap}, {amap}], iterator_types = [{iters}], doc = "k{t_}"}} '
                    f'ins(%vs{t_} : {TV.format(o=s["soff"])}) outs(%vd{t_} : {TV.format(o=s["doff"])}) {{\n^bb0(%x0 : i32, %x1 : i32):\n  linalg.yield %x0 : i32\n}}',
                )
            else:
                if s.get("castin") and not dyn and s["ins"][0].startswith("%a") and s["ins"][0] not in strided:
                    # the operand reaches the kernel through a memref.cast: a view op that does not say where its result lives
                    e(ind, f'%ci{s["tag"]} = "memref.cast"({s["ins"][0]}) : ({T}) -> {T}')
                    s = dict(s, ins=[f'%ci{s["tag"]}'] + s["ins"][1:])
                n = len(s["ins"])
                maps = ", ".join([amap] * (n + 1))
                args = ", ".join(f"%x{j} : i32" for j in range(n + 1))
                e(
                    ind,
                    f'linalg.generic {{indexing_maps = [{maps}], iterator_types = [{iters}], doc = "k{s["tag"]}"}} '
                    f'ins({", ".join(s["ins"])} : {", ".join(ty(b) for b in s["ins"])}) outs({s["out"]} : {ty(s["out"])}) {{\n^bb0({args}):\n'
                    + (f"  %acc = arith.addi %x0, %x{n} : i32\n  linalg.yield %acc : i32\n}}" if s.get("acc") else "  linalg.yield %x0 : i32\n}"),
                )

    e(0, "builtin.module {")
    e(1, f"func.func public @f(%a0 : {ty('%a0')}, %a1 : {ty('%a1')}, %a2 : {ty('%a2')}, %n0 : index, %n1 : index) {{")
    e(2, "%c0 = arith.constant 0 : index")
    e(2, "%c1 = arith.constant 1 : index")
    if dyn:
        e(2, f"%dyn = memref.dim %a0, %c1 : {T}")
    stmts(2, ast["body"])
    e(2, "func.return")
    e(1, "}")
    e(0, "}")
    return "\n".join(L)


def first_use_is_read(ast, what="discipline", lc_args=()):
    """Discipline (DESIGN.md 5.0): for every *cast value*, its first use in program order is a read, or it is never
    read.  set-memory-space creates one cast per argument and block scope: a kernel uses the cast created by an
    earlier kernel on the same argument iff that kernel's block encloses it."""
    casts: dict[str, list] = {}

    def use(arg, path, kind):
        if int(arg[2:]) in lc_args:
            casts.setdefault(arg, []).append({"path": path, "kinds": [kind]})  # its own layout cast: a stand-in with one use
            return
        for c in casts.setdefault(arg, []):
            if path[: len(c["path"])] == c["path"]:
                c["kinds"].append(kind)
                return
        casts[arg].append({"path": path, "kinds": [kind]})

    def walk(body, path):
        for i, s in enumerate(body):
            if s["k"] == "for":
                walk(s["body"], path + (i,))
            elif s["k"] == "gen":
                for b_ in s["ins"]:
                    if b_.startswith("%a"):
                        use(b_, path, "r")
                if s["out"].startswith("%a") and s["out"] not in s["ins"]:
                    use(s["out"], path, "rw" if s.get("acc") else "w")
                elif s["out"].startswith("%a"):
                    # in place: already counted as read above - unless every use has its own layout cast, then the output
                    # side is a stand-in of its own
                    use(s["out"], path, ("rw" if s.get("acc") else "w") if int(s["out"][2:]) in lc_args else "w")

    walk(ast["body"], ())
    # an argument that also reaches a kernel through a memref.cast has two cast values (two stand-ins) for the same memory: each
    # is filled and written back as the statement says, but they do not see each other's data unless the argument is only read
    via_cast = {st["ins"][0] for st in _all_stmts(ast["body"]) if st.get("castin")}
    written_args = {st["out"] for st in _all_stmts(ast["body"]) if st["k"] == "gen"}
    if what == "discipline" and via_cast & written_args:
        return False
    if what == "accumulating-first":
        return any(c["kinds"][0] == "rw" for cs in casts.values() for c in cs)
    return all(c["kinds"][0] in ("r", "rw") or not ({"r", "rw"} & set(c["kinds"])) for cs in casts.values() for c in cs)


def kargs(m: BufferMachine, env, dyn=False, strided=()):
    vs = []
    for i in range(3):
        if i in strided:
            b = m.new_buffer(f"a{i}", 2 * E + 1, external=True)
            vs.append(View(b, 1, [E], [2]))
        elif dyn:
            cols = env.get("cols", 3)
            b = m.new_buffer(f"a{i}", 2 * cols, external=True)
            vs.append(View(b, 0, [2, cols], [cols, 1]))
        else:
            b = m.new_buffer(f"a{i}", E, external=True)
            vs.append(View(b, 0, [E], [1]))
    return vs + list(env["n"])


def reads_of(m):
    return [(tag, read) for _, tag, _, read in m.oplog if not str(tag).startswith("copy")]


LAYOUTS = ["[2, 2] -> (1, 2)", "[2, 2] -> (2, 1)", "[4] -> (1)"]


def compile_with_layout_casts(src, lc_args, clear, lc_allocs=()):
    """set-memory-space, then what set-memory-layout does for an accelerator that wants a tiled layout - every kernel operand
    that stands for one of the arguments in lc_args gets its own snax.layout_cast (a chain memory_space_cast -> layout_cast
    with a single user) - then realize-memref-casts."""
    from xdsl.dialects import linalg, memref
    from xdsl.dialects.memref import MemorySpaceCastOp
    from xdsl.ir import BlockArgument
    from xdsl.parser import Parser
    from xdsl.rewriter import InsertPoint, Rewriter

    from snaxc.dialects.snax import LayoutCast

    try:
        ctx, mod = compat.parse(src)
    except Exception as e:
        raise Rejected("parse", e)
    try:
        compat.run_passes(ctx, mod, "set-memory-space")
    except Exception as e:
        raise Rejected("set-memory-space", e)
    n = 0
    alloc_no: dict = {}
    for op in list(mod.walk()):
        if not isinstance(op, linalg.GenericOp):
            continue
        for j, v in enumerate(op.operands):
            o = v.owner
            if lc_allocs and isinstance(o, memref.AllocOp) and (j < len(op.inputs) or lc_allocs == "all"):
                # a local buffer that is read through a layout cast (and written directly: the allocation keeps its layout);
                # "all": written through a cast as well, every cast of one allocation asks for the same layout (the
                # allocation can then simply be made in that layout)
                which = (n + 1) if lc_allocs != "all" else alloc_no.setdefault(o, len(alloc_no))
                ty = Parser(ctx, f'memref<{E}xi32, #tsl.tsl<{LAYOUTS[which % len(LAYOUTS)]}>, "L1">').parse_type()
                lc = LayoutCast(v, ty)
                Rewriter().insert_op(lc, InsertPoint.before(op))
                op.operands[j] = lc.dest
                n += 1
                continue
            if isinstance(o, MemorySpaceCastOp) and isinstance(o.source, BlockArgument) and o.source.index in lc_args:
                ty = Parser(ctx, f'memref<{E}xi32, #tsl.tsl<{LAYOUTS[(n + o.source.index) % len(LAYOUTS)]}>, "L1">').parse_type()
                lc = LayoutCast(v, ty)
                Rewriter().insert_op(lc, InsertPoint.before(op))
                op.operands[j] = lc.dest
                n += 1
    try:
        mod.verify()
        compat.run_passes(ctx, mod, "realize-memref-casts" + (",clear-memory-space" if clear else ""))
    except Exception as e:
        raise Rejected("realize-memref-casts", e)
    return mod, n


def _addressing(ty):
    """element address (relative to the allocation's base) of a logical index, as the memref *type* prescribes; None if dynamic"""
    from xdsl.dialects.builtin import NoneAttr, StridedLayoutAttr

    from snaxc.dialects.tsl import TiledStridedLayoutAttr

    shape = list(ty.get_shape())
    if any(d < 0 for d in shape):
        return None
    lay = ty.layout
    if isinstance(lay, NoneAttr):
        strides, acc = [], 1
        for d in reversed(shape):
            strides.insert(0, acc)
            acc *= d
        return lambda idx: sum(i * st for i, st in zip(idx, strides))
    if isinstance(lay, StridedLayoutAttr):
        strides, off = lay.get_strides(), lay.get_offset()
        if off is None or any(x is None for x in strides):
            return None
        return lambda idx: off + sum(i * st for i, st in zip(idx, strides))
    if isinstance(lay, TiledStridedLayoutAttr):
        tb = [[st.bound for _, st in ts] for ts in lay.data.tstrides]
        steps = [[st.step for _, st in ts] for ts in lay.data.tstrides]
        if any(x is None for row in tb + steps for x in row):
            return None
        off = lay.data.offset or 0
        return lambda idx: address(idx, tb, steps, off)
    return None


def view_consistency(S, absolute=True):
    """Static oracle: a memref.subview with static offsets / sizes / strides addresses, through its result type, exactly the
    elements of its source (addressed through the source's type) it stands for.  Both types anchor at the same allocation.
    absolute=False: only the positions relative to the first element of the view are compared (where the pass itself
    retypes the view and where the view starts is left to the run-time descriptor)."""
    from xdsl.dialects import memref

    for op in S.walk():
        if not isinstance(op, memref.SubviewOp):
            continue
        if op.offsets or op.sizes or op.strides:
            continue  # dynamic: not judged
        offs = [int(x) for x in op.static_offsets.get_values()]
        strs = [int(x) for x in op.static_strides.get_values()]
        src, res = _addressing(op.source.type), _addressing(op.result.type)
        shape = list(op.result.type.get_shape())
        if src is None or res is None or len(shape) != len(offs) or any(d < 0 for d in shape):
            continue
        w0 = 0 if absolute else src(list(offs))
        g0 = 0 if absolute else res([0] * len(shape))
        for idx in all_indices(shape):
            want = src([o + i * st for o, i, st in zip(offs, idx, strs)]) - w0
            got = res(idx) - g0
            if want != got:
                return (f"memref.subview of a buffer of type {op.source.type}: element {tuple(idx)} of the view lies at element address {want} of the buffer, "
                        f"the result type {op.result.type} puts it at {got}")
    return None


def views_on_filled_buffers(ast):
    """workload precondition of the kernels on subviews (the generator guarantees it, the minimiser must keep it): both
    buffers have been completely written by an earlier top-level kernel"""
    written: set = set()

    def ok(body, top):
        for st in body:
            if st["k"] == "vgen" and not {st["src"], st["dst"]} <= written:
                return False
            if st["k"] == "for" and not ok(st["body"], False):
                return False
            if st["k"] == "gen" and top:
                written.add(st["out"])
        return True

    return ok(ast["body"], True)


def run_kernels(case, out):
    from xdsl.dialects import func, linalg

    if not views_on_filled_buffers(case["ast"]):
        out["status"] = "rejected"
        out["rejected"] = "workload:view-of-unfilled-buffer"
        return out

    src = kernels_emit(case["ast"])
    spec = "set-memory-space,realize-memref-casts" + (",clear-memory-space" if case["clear"] else "")
    try:
        P = compile_variant(src, None)
        if case.get("lc_args") or case.get("lc_allocs"):
            S, n_lc = compile_with_layout_casts(src, case.get("lc_args", []), case["clear"], case.get("lc_allocs", []))
            out["probes"]["layout-cast-chains"] = n_lc
        else:
            S = compile_variant(src, spec)
    except Rejected as r:
        out["status"] = "rejected"
        out["rejected"] = f"{r.stage.split(',')[-1]}:{r.cls}"
        return out
    # static oracles
    dom = check_dominance(S)
    if dom:
        out.update(status="violation", oracle="dominance", message=f"after {spec}: {dom}")
        return out
    if not case["clear"]:
        for op in S.walk():
            if isinstance(op, linalg.GenericOp):
                for v in op.operands:
                    ms = getattr(v.type, "memory_space", None)
                    if ms is not None and str(ms) != '"L1"':
                        out.update(status="violation", oracle="operand-not-local", message=f"linalg.generic {op.doc} has an operand in memory space {ms}")
                        return out
            if isinstance(op, func.FuncOp) and op.sym_name.data == "f":
                for t in op.function_type.inputs:
                    ms = getattr(t, "memory_space", None)
                    if ms is not None and str(ms) != '"L3"':
                        out.update(status="violation", oracle="function-boundary", message=f"argument type {t} does not keep the external memory space")
                        return out
    # the boundary keeps everything but the memory space: shape, element type and layout of every argument
    fp = next(o for o in P.walk() if isinstance(o, func.FuncOp) and o.sym_name.data == "f")
    fs = next(o for o in S.walk() if isinstance(o, func.FuncOp) and o.sym_name.data == "f")
    for t0, t1 in zip(fp.function_type.inputs, fs.function_type.inputs):
        if hasattr(t0, "layout") and (t0.get_shape() != t1.get_shape() or t0.element_type != t1.element_type or t0.layout != t1.layout):
            out.update(status="violation", oracle="function-boundary", message=f"argument type {t0} became {t1}: more than the memory space changed")
            return out
    bad_view = view_consistency(S)
    if bad_view:
        out.update(status="violation", oracle="view-layout", message=bad_view)
        return out
    changed = "memref.copy" in compat.text(S)
    judged = first_use_is_read(case["ast"], lc_args=case.get("lc_args", ()))
    kernels = 0
    digests = []
    for i, env in enumerate(case["envs"]):
        out["runs"] += 2
        out["zero_fault_runs"] += 2
        ref = BufferMachine(P, 1, sequential=True)
        ref.taint = bool(case["ast"].get("uninit_reads"))
        ref.run_single("f", kargs(ref, env, case["ast"].get("dyn"), case["ast"].get("strided_args", ())), Core(0))
        sub = BufferMachine(S, 1, sequential=True)
        try:
            sub.run_single("f", kargs(sub, env, case["ast"].get("dyn"), case["ast"].get("strided_args", ())), Core(0))
        except Violation as v:
            out.update(status="violation", oracle=v.oracle, message=v.message, env_index=i)
            return out
        bad = None
        a, b = reads_of(ref), reads_of(sub)
        b = [x for x in b if isinstance(x[0], str)]  # copies inserted by the pass carry no kernel tag

        def same(x, y):
            # where the reference read (data derived from) uninitialised memory, anything is accepted
            return x[0] == y[0] and len(x[1]) == len(y[1]) and all(is_undef(u) or u == v for u, v in zip(x[1], y[1]))

        if len(a) != len(b) or not all(same(x, y) for x, y in zip(a, b)):
            k = next((j for j, (x, y) in enumerate(zip(a, b)) if not same(x, y)), min(len(a), len(b)))
            bad = f"kernel execution {k}: reference reads {a[k] if k < len(a) else None!r}, compiled program reads {b[k] if k < len(b) else None!r}"
        elif any(not (is_undef(v) or sub.mem.get(k) == v) for k, v in ref.externals().items()):
            cells = sorted(k for k, v in ref.externals().items() if sub.mem.get(k) != v and not is_undef(v))[:2]
            bad = f"arguments end differently: cells {cells} hold {[sub.mem.get(c) for c in cells]!r}, reference {[ref.mem[c] for c in cells]!r}"
        if bad:
            if judged:
                out.update(status="violation", oracle="data", message=bad, env_index=i)
                return out
            out["probes"]["observation-stale-copy-in-after-writer"] = out["probes"].get("observation-stale-copy-in-after-writer", 0) + 1
            break
        kernels += len(a)
        out["steps"] += ref.steps + sub.steps
        digests.append(digest_of(b))
    out["probes"]["judged-by-data-oracle" if judged else "static-oracles-only"] = 1
    out["nontrivial"] = bool(changed and kernels)
    out["digest"] = digest_of(digests)
    return out


# ------------------------------------------------------------------ family constants


class FBits(int):
    """an f32 value: prints as the float, compares as its bit pattern (what the memory holds)"""

    def __new__(cls, v):
        import struct

        o = super().__new__(cls, int.from_bytes(struct.pack("<f", float(v)), "little"))
        o.text = f"{float(v):.1f}"
        return o

    def __str__(self):
        return self.text


def nested(vals, shape):
    if len(shape) == 1:
        return "[" + ", ".join(map(str, vals)) + "]"
    n = len(vals) // shape[0]
    return "[" + ", ".join(nested(vals[i * n : (i + 1) * n], shape[1:]) for i in range(shape[0])) + "]"


def const_program(case):
    tb, steps = case["tb"], case["steps"]
    shape = shape_of(tb)
    n = 1
    for x in shape:
        n *= x
    vals = [(v * case["mul"] + 1) % (100 if case["el"] == "i8" else 100000) for v in range(n)]
    if case["el"] == "f32":
        vals = [FBits(v) for v in vals]
    sh = "x".join(map(str, shape))
    el = case["el"]
    tsl = tsl_text(tb, steps, 0)
    l3 = f'memref<{sh}x{el}, "L3">'
    l3t = f'memref<{sh}x{el}, {tsl}, "L3">'
    glob = f'  "memref.global"() <{{alignment = 64 : i64, constant, initial_value = dense<{nested(vals, shape)}> : tensor<{sh}x{el}>, sym_name = "g", sym_visibility = "private", type = memref<{sh}x{el}>}}> : () -> ()\n'
    if case["kind"] == "const":
        src = (
            f'builtin.module {{\n  %0 = arith.constant dense<{nested(vals, shape)}> : memref<{sh}x{el}, "L1">\n'
            f'  %1 = "snax.layout_cast"(%0) : (memref<{sh}x{el}, "L1">) -> memref<{sh}x{el}, {tsl}, "L1">\n'
            f'  "test.op"(%1) : (memref<{sh}x{el}, {tsl}, "L1">) -> ()\n}}'
        )
    elif case["kind"] == "global-subview":
        # a window of a larger global (case["mult"] times as many rows), cast to the tiled layout: offset aligned to the window
        # size, or not
        mult, off0 = case.get("mult", 2), case.get("off0", 0)
        off0 = min(off0, (mult - 1) * shape[0])  # the window lies inside the global
        gshape = [shape[0] * mult] + shape[1:]
        gn = n * mult
        gvals = [(v * case["mul"] + 1) % (100 if el == "i8" else 100000) for v in range(gn)]
        if el == "f32":
            gvals = [FBits(v) for v in gvals]
        gsh = "x".join(map(str, gshape))
        strides = [1] * len(shape)
        for i in range(len(shape) - 2, -1, -1):
            strides[i] = strides[i + 1] * gshape[i + 1]
        gl3 = f'memref<{gsh}x{el}, "L3">'
        vty = f'memref<{sh}x{el}, strided<[{", ".join(map(str, strides))}], offset: {off0 * strides[0]}>, "L3">'
        glob2 = f'  "memref.global"() <{{alignment = 64 : i64, constant, initial_value = dense<{nested(gvals, gshape)}> : tensor<{gsh}x{el}>, sym_name = "g", sym_visibility = "private", type = memref<{gsh}x{el}>}}> : () -> ()\n'
        offs = ", ".join([str(off0)] + ["0"] * (len(shape) - 1))
        sib = ""
        if case.get("sibling"):
            # the global is divided into tiles: a second window of it is read as well - as it is, or through a layout cast of its own
            off1 = (mult - 1) * shape[0] if off0 == 0 else 0
            vty1 = f'memref<{sh}x{el}, strided<[{", ".join(map(str, strides))}], offset: {off1 * strides[0]}>, "L3">'
            offs1 = ", ".join([str(off1)] + ["0"] * (len(shape) - 1))
            sib = f'  %s2 = memref.subview %0[{offs1}] [{", ".join(map(str, shape))}] [{", ".join(["1"] * len(shape))}] : {gl3} to {vty1}\n'
            if case["sibling"] == "cast":
                sib += f'  %2 = "snax.layout_cast"(%s2) : ({vty1}) -> {l3t}\n  "test.op"(%2) {{view_of_constant}} : ({l3t}) -> ()\n'
            else:
                sib += f'  "test.op"(%s2) {{view_of_constant}} : ({vty1}) -> ()\n'
        src = (
            f'builtin.module {{\n{glob2}  %0 = memref.get_global @g : {gl3}\n'
            f'  %s = memref.subview %0[{offs}] [{", ".join(map(str, shape))}] [{", ".join(["1"] * len(shape))}] : {gl3} to {vty}\n'
            f'{sib}  %1 = "snax.layout_cast"(%s) : ({vty}) -> {l3t}\n  "test.op"(%1) : ({l3t}) -> ()\n}}'
        )
        first = off0 * (n // shape[0])
        return src, gvals[first : first + n], shape
    elif case["kind"] in ("const-msc-subview", "global-msc-subview"):
        # the constant / global reaches its consumers through a shared memory_space_cast: one of them through a layout cast,
        # the other through a subview (its first row / element block) of the cast result
        l3 = f'memref<{sh}x{el}, "L3">'
        l1 = f'memref<{sh}x{el}, "L1">'
        l1t = f'memref<{sh}x{el}, {tsl}, "L1">'
        strides = [1] * len(shape)
        for i in range(len(shape) - 2, -1, -1):
            strides[i] = strides[i + 1] * shape[i + 1]
        first = 1 if shape[0] > 1 else 0
        vshape = [1] + shape[1:]
        vty = f'memref<{"x".join(map(str, vshape))}x{el}, strided<[{", ".join(map(str, strides))}], offset: {first * strides[0]}>, "L1">'
        offs = ", ".join([str(first)] + ["0"] * (len(shape) - 1))
        head = (f'builtin.module {{\n  %0 = arith.constant dense<{nested(vals, shape)}> : {l3}\n' if case["kind"] == "const-msc-subview"
                else f'builtin.module {{\n{glob}  %0 = memref.get_global @g : {l3}\n')
        src = head + (
            f'  %m = "memref.memory_space_cast"(%0) : ({l3}) -> {l1}\n'
            f'  %s = memref.subview %m[{offs}] [{", ".join(map(str, vshape))}] [{", ".join(["1"] * len(shape))}] : {l1} to {vty}\n'
            f'  "test.op"(%s) {{view_of_constant}} : ({vty}) -> ()\n'
            f'  %1 = "snax.layout_cast"(%m) : ({l1}) -> {l1t}\n  "test.op"(%1) : ({l1t}) -> ()\n}}'
        )
    elif case["kind"] == "const-subview":
        # the constant is also read through a subview (its first row / first element block) by another consumer
        l1 = f'memref<{sh}x{el}, "L1">'
        l1t = f'memref<{sh}x{el}, {tsl}, "L1">'
        strides = [1] * len(shape)
        for i in range(len(shape) - 2, -1, -1):
            strides[i] = strides[i + 1] * shape[i + 1]
        first = 1 if shape[0] > 1 else 0
        vshape = [1] + shape[1:]
        vty = f'memref<{"x".join(map(str, vshape))}x{el}, strided<[{", ".join(map(str, strides))}], offset: {first * strides[0]}>, "L1">'
        offs = ", ".join([str(first)] + ["0"] * (len(shape) - 1))
        src = (
            f'builtin.module {{\n  %0 = arith.constant dense<{nested(vals, shape)}> : {l1}\n'
            f'  %s = memref.subview %0[{offs}] [{", ".join(map(str, vshape))}] [{", ".join(["1"] * len(shape))}] : {l1} to {vty}\n'
            f'  "test.op"(%s) {{view_of_constant}} : ({vty}) -> ()\n'
            f'  %1 = "snax.layout_cast"(%0) : ({l1}) -> {l1t}\n  "test.op"(%1) : ({l1t}) -> ()\n}}'
        )
    elif case["kind"] in ("const-two-layouts", "const-chain"):
        # one constant, two *different* target layouts: two casts of it (the same weights feeding two accelerator operations
        # that ask for different tilings), or a chain of two casts
        tsl2 = tsl_text(tb, case["steps2"], 0)
        l1 = f'memref<{sh}x{el}, "L1">'
        l1t, l1u = f'memref<{sh}x{el}, {tsl}, "L1">', f'memref<{sh}x{el}, {tsl2}, "L1">'
        head = f'builtin.module {{\n  %0 = arith.constant dense<{nested(vals, shape)}> : {l1}\n  %1 = "snax.layout_cast"(%0) : ({l1}) -> {l1t}\n'
        if case["kind"] == "const-two-layouts":
            src = head + f'  "test.op"(%1) : ({l1t}) -> ()\n  %3 = "snax.layout_cast"(%0) : ({l1}) -> {l1u}\n  "test.op"(%3) : ({l1u}) -> ()\n}}'
        else:
            src = head + f'  %3 = "snax.layout_cast"(%1) : ({l1t}) -> {l1u}\n  "test.op"(%3) : ({l1u}) -> ()\n}}'
    elif case["kind"] == "global":
        src = f'builtin.module {{\n{glob}  %0 = memref.get_global @g : {l3}\n  %1 = "snax.layout_cast"(%0) : ({l3}) -> {l3t}\n  "test.op"(%1) : ({l3t}) -> ()\n}}'
    elif case["kind"] == "global-two-gets":
        # the same global read twice, each read re-laid-out
        src = (
            f'builtin.module {{\n{glob}  %0 = memref.get_global @g : {l3}\n  %1 = "snax.layout_cast"(%0) : ({l3}) -> {l3t}\n  "test.op"(%1) : ({l3t}) -> ()\n'
            f'  %2 = memref.get_global @g : {l3}\n  %3 = "snax.layout_cast"(%2) : ({l3}) -> {l3t}\n  "test.op"(%3) : ({l3t}) -> ()\n}}'
        )
    elif case["kind"] == "global-two-funcs":
        # two functions of one module read the same global, one of them through a layout cast
        src = (
            f'builtin.module {{\n{glob}  func.func @dev() {{\n    %0 = memref.get_global @g : {l3}\n    %1 = "snax.layout_cast"(%0) : ({l3}) -> {l3t}\n    "test.op"(%1) : ({l3t}) -> ()\n    func.return\n  }}\n'
            f'  func.func @host() {{\n    %2 = memref.get_global @g : {l3}\n    "test.op"(%2) : ({l3}) -> ()\n    func.return\n  }}\n}}'
        )
    elif case["kind"] in ("global-two-layouts", "global-chain", "global-msc-two-layouts"):
        # two *different* target layouts for one global: two casts of one read, a chain of two casts, or two casts on top of
        # a shared memory_space_cast
        tsl2 = tsl_text(tb, case["steps2"], 0)
        l3u = f'memref<{sh}x{el}, {tsl2}, "L3">'
        if case["kind"] == "global-two-layouts":
            src = (
                f'builtin.module {{\n{glob}  %0 = memref.get_global @g : {l3}\n  %1 = "snax.layout_cast"(%0) : ({l3}) -> {l3t}\n  "test.op"(%1) : ({l3t}) -> ()\n'
                f'  %3 = "snax.layout_cast"(%0) : ({l3}) -> {l3u}\n  "test.op"(%3) : ({l3u}) -> ()\n}}'
            )
        elif case["kind"] == "global-chain":
            src = (
                f'builtin.module {{\n{glob}  %0 = memref.get_global @g : {l3}\n  %1 = "snax.layout_cast"(%0) : ({l3}) -> {l3t}\n'
                f'  %3 = "snax.layout_cast"(%1) : ({l3t}) -> {l3u}\n  "test.op"(%3) : ({l3u}) -> ()\n}}'
            )
        else:
            l1 = f'memref<{sh}x{el}, "L1">'
            l1t, l1u = f'memref<{sh}x{el}, {tsl}, "L1">', f'memref<{sh}x{el}, {tsl2}, "L1">'
            src = (
                f'builtin.module {{\n{glob}  %0 = memref.get_global @g : {l3}\n  %m = "memref.memory_space_cast"(%0) : ({l3}) -> {l1}\n'
                f'  %1 = "snax.layout_cast"(%m) : ({l1}) -> {l1t}\n  "test.op"(%1) : ({l1t}) -> ()\n'
                f'  %3 = "snax.layout_cast"(%m) : ({l1}) -> {l1u}\n  "test.op"(%3) : ({l1u}) -> ()\n}}'
            )
    else:  # global-two-casts: one read feeding two casts
        src = (
            f'builtin.module {{\n{glob}  %0 = memref.get_global @g : {l3}\n  %1 = "snax.layout_cast"(%0) : ({l3}) -> {l3t}\n  "test.op"(%1) : ({l3t}) -> ()\n'
            f'  %3 = "snax.layout_cast"(%0) : ({l3}) -> {l3t}\n  "test.op"(%3) : ({l3t}) -> ()\n}}'
        )
    return src, vals, shape


def logical_values(value, S, shape, eb, depth=0):
    """Logical contents reaching `value` in the compiled module, decoded with the layout of each carrier's *type*
    (independent layout oracle).  Returns (list of values in row-major logical order) or raises Violation."""
    from xdsl.dialects import arith, memref
    from xdsl.dialects.builtin import DenseIntOrFPElementsAttr, NoneAttr
    from xdsl.traits import SymbolTable

    from snaxc.dialects.snax import LayoutCast
    from snaxc.dialects.tsl import TiledStridedLayoutAttr

    if depth > 6:
        raise Violation("constant-relayout", "cannot trace the constant reaching a consumer")
    op = value.owner

    def decode(dense, ty):
        data = dense.data.data
        lay = ty.layout
        out_vals = []
        if isinstance(lay, TiledStridedLayoutAttr):
            tb = [[st.bound for _, st in ts] for ts in lay.data.tstrides]
            steps = [[st.step for _, st in ts] for ts in lay.data.tstrides]
            off = lay.data.offset or 0
            for idx in all_indices(shape):
                a = address(idx, tb, steps, off) * eb
                out_vals.append(int.from_bytes(data[a : a + eb], "little"))
        elif isinstance(lay, NoneAttr):
            for k in range(len(data) // eb):
                out_vals.append(int.from_bytes(data[k * eb : (k + 1) * eb], "little"))
        else:
            raise Violation("constant-relayout", f"unexpected layout {lay} on a constant")
        return out_vals

    if isinstance(op, arith.ConstantOp) and isinstance(op.value, DenseIntOrFPElementsAttr):
        return decode(op.value, value.type)
    if isinstance(op, memref.GetGlobalOp):
        g = SymbolTable.lookup_symbol(S, op.name_)
        if not isinstance(g, memref.GlobalOp):
            raise Violation("constant-relayout", f"memref.get_global @{op.name_.string_value()} refers to a global that no longer exists")
        if not isinstance(g.initial_value, DenseIntOrFPElementsAttr):
            raise Violation("constant-relayout", "global lost its initial value")
        if g.type.layout != value.type.layout:
            raise Violation("constant-relayout", f"get_global type layout {value.type.layout} differs from the global's layout {g.type.layout}")
        return decode(g.initial_value, value.type)
    if isinstance(op, (LayoutCast, memref.MemorySpaceCastOp)):
        return logical_values(op.source, S, shape, eb, depth + 1)
    if isinstance(op, memref.SubviewOp) and not (op.offsets or op.sizes or op.strides):
        # a static window: the logical elements of the source it stands for (that its result type addresses exactly those is
        # the view-layout oracle's matter)
        sshape = list(op.source.type.get_shape())
        svals = logical_values(op.source, S, sshape, eb, depth + 1)
        offs = [int(x) for x in op.static_offsets.get_values()]
        strs = [int(x) for x in op.static_strides.get_values()]
        sizes = [int(x) for x in op.static_sizes.get_values()]
        out_vals = []
        for idx in all_indices(sizes):
            pos = 0
            for d, (o, i, st) in enumerate(zip(offs, idx, strs)):
                pos = pos * sshape[d] + (o + i * st)
            out_vals.append(svals[pos])
        return out_vals
    if isinstance(op, memref.AllocOp):
        for o in S.walk():
            if isinstance(o, memref.CopyOp) and o.destination is value:
                return logical_values(o.source, S, shape, eb, depth + 1)  # a copy moves logical contents (C05's job)
        raise Violation("constant-relayout", "a consumer reads an allocation that is never filled")
    raise Violation("constant-relayout", f"consumer operand defined by {getattr(op, 'name', 'block argument')}")


def run_transpose(case, out):
    """RemoveTransposeConstants (the rewrite pattern of the `preprocess` pass, applied directly: the pass itself shells
    out to mlir-opt): a linalg.generic that transposes a constant tensor is folded into a transposed constant."""
    from xdsl.dialects import arith, func
    from xdsl.dialects.builtin import DenseIntOrFPElementsAttr
    from xdsl.pattern_rewriter import PatternRewriteWalker

    from snaxc.transforms.frontend.remove_transpose_constants import RemoveTransposeConstants

    R, C, el = case["rows"], case["cols"], case["el"]
    vals = [(v * case["mul"] + 1) % 100 for v in range(R * C)]
    maps = case.get("maps", "in")
    T, I = "affine_map<(d0, d1) -> (d1, d0)>", "affine_map<(d0, d1) -> (d0, d1)>"
    # which side is indexed transposed: the input (the usual form), the output, or both (a plain copy with interchanged loops)
    m_in, m_out = {"in": (T, I), "out": (I, T), "both": (T, T)}[maps]
    oR, oC = (R, C) if maps == "both" else (C, R)
    src = (
        f"builtin.module {{\n  func.func @f() -> tensor<{oR}x{oC}x{el}> {{\n"
        f"    %c = arith.constant dense<{nested(vals, [R, C])}> : tensor<{R}x{C}x{el}>\n"
        f"    %e = tensor.empty() : tensor<{oR}x{oC}x{el}>\n"
        f'    %t = linalg.generic {{indexing_maps = [{m_in}, {m_out}], iterator_types = ["parallel", "parallel"]}} '
        f"ins(%c : tensor<{R}x{C}x{el}>) outs(%e : tensor<{oR}x{oC}x{el}>) {{\n    ^bb0(%in: {el}, %o: {el}):\n      linalg.yield %in : {el}\n    }} -> tensor<{oR}x{oC}x{el}>\n"
        f"    func.return %t : tensor<{oR}x{oC}x{el}>\n  }}\n}}"
    )
    try:
        ctx, mod = compat.parse(src)
        PatternRewriteWalker(RemoveTransposeConstants(), apply_recursively=False).rewrite_module(mod)
        mod.verify()
    except Exception as e:
        out["status"] = "rejected"
        out["rejected"] = f"remove-transpose-constants:{type(e).__name__}"
        return out
    out["runs"] = out["zero_fault_runs"] = 1
    ret = next(o for o in mod.walk() if isinstance(o, func.ReturnOp))
    d = ret.operands[0].owner
    if not (isinstance(d, arith.ConstantOp) and isinstance(d.value, DenseIntOrFPElementsAttr)):
        out["probes"]["constant-not-transformed"] = 1
        return out
    got = [int(v) for v in d.value.get_values()]
    want = list(vals) if maps == "both" else [vals[r * C + c] for c in range(C) for r in range(R)]
    if got != want:
        k = next(i for i, (x, y) in enumerate(zip(got, want)) if x != y)
        out.update(status="violation", oracle="constant-relayout", message=f"transposed {R}x{C} constant: element ({k // R}, {k % R}) of the result is {got[k]}, the transpose has {want[k]}")
        return out
    out["probes"]["constant-transformed"] = 1
    out["nontrivial"] = R > 1 and C > 1
    out["digest"] = digest_of(got)
    return out


def run_const(case, out):
    from xdsl.dialects import test

    src, vals, shape = const_program(case)
    try:
        S = compile_variant(src, "realize-memref-casts")
    except Rejected as r:
        out["status"] = "rejected"
        out["rejected"] = f"{r.stage}:{r.cls}"
        return out
    out["runs"] = out["zero_fault_runs"] = 1
    eb = {"i8": 1, "i32": 4, "f32": 4}[case["el"]]
    t = compat.text(S)
    bad_view = view_consistency(S, absolute=case["kind"] != "global-subview")
    if bad_view:
        out.update(status="violation", oracle="view-layout", message=bad_view)
        return out
    consumers = [o for o in S.walk() if isinstance(o, test.TestOp) and "view_of_constant" not in o.attributes]
    try:
        for n, c in enumerate(consumers):
            got = logical_values(c.operands[0], S, shape, eb)
            if got != vals:
                k = next(i for i, (x, y) in enumerate(zip(got, vals)) if x != y)
                out.update(status="violation", oracle="constant-relayout", message=f"consumer {n}: logical element #{k} (value {vals[k]}) decodes to {got[k]}")
                return out
    except Violation as v:
        out.update(status="violation", oracle=v.oracle, message=v.message)
        return out
    transformed = "snax.layout_cast" not in t and "_transformed" in t or (case["kind"].startswith("const") and "memref.copy" not in t and "snax.layout_cast" not in t)
    out["probes"]["constant-transformed" if transformed else "constant-not-transformed"] = 1
    out["nontrivial"] = bool(transformed)
    out["digest"] = digest_of(len(consumers), transformed)
    return out


def gen_case(rng, tier):
    if rng.random() < 0.05:
        return {"fam": "transpose", "rows": rng.randint(1, 5), "cols": rng.randint(1, 5), "el": rng.choice(["i8", "i32"]), "mul": rng.choice([1, 3, 7]), "maps": rng.choice(["in", "in", "out", "both"])}
    if rng.random() < 0.3:
        from .c05 import gen_steps

        rank = rng.choice([1, 2, 2, 3])
        depth = [rng.choice([1, 2, 2, 3]) for _ in range(rank)]
        tb = [[rng.choice([1, 2, 2, 3, 4]) for _ in range(depth[d])] for d in range(rank)]
        return {"fam": "const", "tb": tb, "steps": gen_steps(rng, tb, pad=False), "steps2": gen_steps(rng, tb, pad=False), "el": rng.choice(["i8", "i32", "f32"]),
                "mult": rng.choice([1, 2, 3]), "off0": rng.choice([0, 0, 1, 2]), "sibling": rng.choice([None, None, "plain", "cast"]),
                "kind": rng.choice(["const", "const", "const-two-layouts", "const-chain", "const-subview", "const-msc-subview", "global-msc-subview", "global-subview", "global-subview", "global", "global", "global-two-gets", "global-two-casts", "global-two-funcs", "global-two-layouts", "global-chain", "global-msc-two-layouts"]), "mul": rng.choice([1, 3, 7])}
    accum = rng.choice([0, 0, 0, 0.3])
    uninit = rng.choice([0, 0, 0, 0.4])
    dyn = rng.random() < 0.15
    views = 0 if dyn else rng.choice([0, 0, 0.3, 0.5])  # kernels on subviews (halves) of completely filled local buffers
    kg = KGen(rng, accum, inplace=rng.choice([0, 0, 0.2]), uninit=uninit, views=views)
    kg.castin = rng.choice([0, 0, 0, 0.4])  # arguments that reach a kernel through a memref.cast
    ast = kg.program()
    if uninit:
        ast["uninit_reads"] = True
    if not dyn and rng.random() < 0.2:
        ast["strided_args"] = sorted(rng.sample([0, 1, 2], rng.choice([1, 2])))  # arguments that are strided windows of a larger buffer
    envs = [{"n": [rng.choice([0, 1, 2]), rng.choice([0, 1, 2])]} for _ in range(K_ENVS[tier])]
    if dyn:
        ast["dyn"] = True  # all buffers are 2 x ? (run-time number of columns 1..4): stand-ins are sized with memref.dim
        for e in envs:
            e["cols"] = rng.choice([1, 2, 3, 4])
    case = {"fam": "kernels", "ast": ast, "envs": envs, "clear": rng.random() < 0.2}
    if rng.random() < 0.25 and not ast.get("dyn"):
        # chains of casts: every kernel operand standing for these arguments gets its own layout cast on top of the L1 cast
        case["lc_args"] = sorted(rng.sample([0, 1, 2], rng.choice([1, 1, 2, 3])))
    if rng.random() < (0.6 if ast.get("uninit_reads") else 0.5 if views else 0.1) and not ast.get("dyn"):
        case["lc_allocs"] = True  # local buffers are read through a layout cast (set-memory-space drops the site attribute: all of them)
        if rng.random() < 0.4:
            case["lc_allocs"] = "all"  # ... and written through one: all casts of a buffer agree on the layout
    return case


def execute(case):
    out = new_outcome()
    if case["fam"] == "transpose":
        return run_transpose(case, out)
    return run_const(case, out) if case["fam"] == "const" else run_kernels(case, out)


def _shrink_body(body):
    for i, s in enumerate(body):
        yield body[:i] + body[i + 1 :]
    for i, s in enumerate(body):
        if s["k"] == "for":
            yield body[:i] + s["body"] + body[i + 1 :]
            for nb in _shrink_body(s["body"]):
                yield body[:i] + [dict(s, body=nb)] + body[i + 1 :]
        if s["k"] == "gen" and len(s["ins"]) > 1:
            yield body[:i] + [dict(s, ins=s["ins"][:1])] + body[i + 1 :]
        if s["k"] == "gen" and s.get("castin"):
            yield body[:i] + [{kk: vv for kk, vv in s.items() if kk != "castin"}] + body[i + 1 :]


def _kf_c12_1(case, outcome):
    """the first use of some cast value is a kernel that accumulates into it (reads its own output)"""
    import re

    if _kf_c12_1_local(case, outcome):
        return True
    if not (case.get("fam") == "kernels" and outcome.get("oracle") == "data" and first_use_is_read(case["ast"], "accumulating-first", case.get("lc_args", ()))):
        return False
    # ... and the first kernel that reads other data than in the reference is an accumulating one
    m = re.search(r"reference reads \('k(\d+)'", outcome.get("message") or "")
    acc_tags = {st["tag"] for st in _all_stmts(case["ast"]["body"]) if st.get("acc") and st["out"].startswith("%a")}
    return bool(m and int(m.group(1)) in acc_tags)


def _kf_c12_1_local(case, outcome):
    """the same through a layout cast on a local buffer: with casts on every use of an allocation, a kernel that accumulates
    into a local buffer works on a stand-in of its own whose first use is that accumulation"""
    import re

    if not (case.get("fam") == "kernels" and outcome.get("oracle") == "data" and case.get("lc_allocs") == "all"):
        return False
    m = re.search(r"reference reads \('k(\d+)'", outcome.get("message") or "")
    acc_tags = {st["tag"] for st in _all_stmts(case["ast"]["body"]) if st.get("acc") and st["out"].startswith("%b")}
    return bool(m and int(m.group(1)) in acc_tags)


def _all_stmts(body):
    for st in body:
        yield st
        yield from _all_stmts(st.get("body", []))


TRIGGERS = {"accumulating_output_gets_no_copy_in": _kf_c12_1}


def shrink(case):
    if case["fam"] in ("const", "transpose"):
        return
    if len(case["envs"]) > 1:
        for e in case["envs"]:
            yield dict(case, envs=[e])
    for nb in _shrink_body(case["ast"]["body"]):
        yield dict(case, ast=dict(case["ast"], body=nb))
    if case["ast"].get("dyn"):
        yield dict(case, ast={k: v for k, v in case["ast"].items() if k != "dyn"})
    if case["ast"].get("strided_args"):
        yield dict(case, ast={k: v for k, v in case["ast"].items() if k != "strided_args"})
    if case["clear"]:
        yield dict(case, clear=False)
    if case.get("lc_allocs"):
        yield {k: v for k, v in case.items() if k != "lc_allocs"}
        if case["lc_allocs"] == "all":
            yield dict(case, lc_allocs=True)
    if case.get("lc_args"):
        yield {k: v for k, v in case.items() if k != "lc_args"}
        for a in case["lc_args"]:
            if len(case["lc_args"]) > 1:
                yield dict(case, lc_args=[x for x in case["lc_args"] if x != a])


def sample_of(case):
    if case["fam"] == "transpose":
        return {"family": "transpose-constant", "rows": case["rows"], "cols": case["cols"], "element": case["el"]}
    if case["fam"] == "const":
        return {"family": "constants", "program": const_program(case)[0]}
    return {"family": "kernels", "program": kernels_emit(case["ast"]), "environments": case["envs"][:2], "clear_memory_space": case["clear"]}


META = {
    "real": [
        "snaxc/transforms/set_memory_space.py, realize_memref_casts.py (RealizeMemrefCasts, transform_constant, ApplyLayoutCast*), clear_memory_space.py",
    ],
    "stub": [
        "IR interpreter + symbolic buffer contents (simsnax/cluster.py BufferMachine, single core)",
        "independent layout oracle for the constant family (simsnax/layout.py)",
        "xDSL 0.70.0 with the irdl_options shim",
    ],
    "assumptions": [
        "reference semantics: in the input program a kernel operates on the argument itself (a cast result aliases its source)",
        "local allocs are written before they are read; garbage is tagged by allocation site",
        "data failures in programs whose argument is first written and later read through its cast are OBSERVATIONs (the copy-in sits before the first reader as the statement words it), not violations",
        "alloc-to-global is not exercised; RemoveTransposeConstants is applied as a rewrite pattern (its pass shells out to mlir-opt); no schedule or fault dimension: distinct_interleavings = 1",
    ],
    "interleavings": "single core: 1",
}
