"""Minimal FileCheck: CHECK, CHECK-NEXT, CHECK-SAME(ignored->search same line), CHECK-NOT (ignored), CHECK-DAG (as CHECK unordered in window - approximated as CHECK), CHECK-LABEL (as CHECK), CHECK-EMPTY (ignored)."""
import re
def compile_pat(p, vars):
    # split into literal / {{regex}} / [[VAR:regex]] / [[VAR]]
    out=""; i=0
    while i < len(p):
        if p.startswith("{{", i):
            j=p.index("}}", i); out+="(?:"+p[i+2:j]+")"; i=j+2
        elif p.startswith("[[", i):
            j=p.index("]]", i); body=p[i+2:j]; i=j+2
            if ":" in body:
                name, rx = body.split(":",1); out+=f"(?P<{name.strip('$')}>{rx})"
            else:
                name=body.strip('$')
                if name in vars: out+=re.escape(vars[name])
                else: out+=".*"
        else:
            c=p[i]
            if c.isspace():
                out+=r"\s+"
                while i < len(p) and p[i].isspace(): i+=1
                continue
            out+=re.escape(c); i+=1
    return re.compile(out)
def filecheck(check_text, output, prefixes=("CHECK",)):
    lines=[re.sub(r"\^bb\d+","^bbN",re.sub(r"\s*:\s*",":",re.sub(r"\s+"," ",l.strip()))) for l in output.splitlines()]
    lines=[l for l in lines]
    directives=[]
    for l in check_text.splitlines():
        m=re.match(r"\s*//\s*([A-Z_0-9]+)(-NEXT|-SAME|-NOT|-DAG|-LABEL|-EMPTY)?:\s?(.*)$", l)
        if m and m.group(1) in prefixes:
            directives.append((m.group(2) or "", re.sub(r"\^bb\d+","^bbN",re.sub(r"\s*:\s*(?![^\[]*\]\])",":",re.sub(r"\s+"," ",m.group(3).strip())))))
    pos=-1; vars={}
    for kind, pat in directives:
        if kind in ("-NOT","-EMPTY"): continue
        rx=compile_pat(pat, vars)
        if kind=="-NEXT":
            # next non-... line
            nxt=pos+1
            if nxt>=len(lines) or not rx.search(lines[nxt]):
                return False, f"NEXT fail at out line {nxt}: want `{pat}` got `{lines[nxt] if nxt<len(lines) else None}`"
            m=rx.search(lines[nxt]); vars.update({k:v for k,v in m.groupdict().items() if v is not None}); pos=nxt
        elif kind=="-SAME":
            if pos<0 or not rx.search(lines[pos]): return False, f"SAME fail: {pat}"
        else:
            start = pos+1 if kind!="-DAG" else max(pos-5,0)
            for k in range(start, len(lines)):
                m=rx.search(lines[k])
                if m:
                    vars.update({kk:v for kk,v in m.groupdict().items() if v is not None}); pos=max(pos,k) if kind=="-DAG" else k; break
            else:
                return False, f"CHECK fail: `{pat}` not found after line {pos}"
    return True, f"{len(directives)} directives"
