"""Fidelity self-test (DESIGN.md §2.2): re-runs every upstream tests/filecheck RUN line that only
needs snax-opt through a small FileCheck work-alike, and can dump the raw outputs so that two trees
(before / after a repair) can be compared byte for byte.

  python -m simsnax.tools.fidelity [--dump DIR]
"""
from __future__ import annotations

import contextlib
import glob
import io
import os
import re
import shlex
import sys

from .. import compat

SUBS = {
    "XDSL_ROUNDTRIP": "snax-opt %s --print-op-generic --split-input-file | snax-opt --split-input-file | filecheck %s",
    "XDSL_GENERIC_ROUNDTRIP": "snax-opt %s --print-op-generic --split-input-file | filecheck %s --check-prefix=CHECK-GENERIC",
    "XDSL_SINGLETRIP": "snax-opt %s --split-input-file | filecheck %s",
}


def run_opt(args, stdin=None):
    from snaxc.tools.snax_opt_main import SNAXOptMain

    out = io.StringIO()
    old = sys.stdin
    if stdin is not None:
        sys.stdin = io.StringIO(stdin)
    try:
        with contextlib.redirect_stdout(out), contextlib.redirect_stderr(io.StringIO()):
            SNAXOptMain(args=args).run()
    finally:
        sys.stdin = old
    return out.getvalue()


def main(dump=None):
    from .minifc import filecheck

    compat.install()
    os.chdir(compat.REPO)
    res = []
    for f in sorted(glob.glob("tests/filecheck/**/*.mlir", recursive=True)):
        txt = open(f).read()
        for n, r in enumerate(re.findall(r"//\s*RUN:\s*(.*)", txt)):
            r = SUBS.get(r.strip(), r)
            stages = [s.strip() for s in r.split("|")]
            try:
                data = None
                ok = None
                for st in stages:
                    a = shlex.split(st)
                    if "snax-opt" in a[0]:
                        data = run_opt([x.replace("%s", f) for x in a[1:]], stdin=data)
                    elif a[0] == "filecheck":
                        prefixes = ()
                        for i, x in enumerate(a[1:], 1):
                            if x.startswith("--check-prefix") and "=" in x:
                                prefixes += tuple(x.split("=", 1)[1].split(","))
                            elif x.startswith("--check-prefix") and i + 1 < len(a):
                                prefixes += tuple(a[i + 1].split(","))
                        prefixes = prefixes or ("CHECK",)
                        ok = filecheck(txt, data, prefixes)
                    else:
                        ok = (None, "unsupported stage " + a[0])
                        break
                if dump and data is not None:
                    os.makedirs(dump, exist_ok=True)
                    open(os.path.join(dump, f.replace("/", "__") + f".{n}.out"), "w").write(data)
                res.append((f, r, ok))
            except BaseException as e:  # SystemExit from the driver included
                res.append((f, r, (None, type(e).__name__ + ": " + str(e)[:100].replace("\n", " "))))
    import collections

    c = collections.Counter(str(x[2][0]) for x in res)
    print("fidelity:", dict(c), "of", len(res), "RUN lines")
    for f, r, ok in res:
        if ok[0] is not True:
            print("  ", f, "|", r[:50], "=>", ok)
    return c


if __name__ == "__main__":
    d = None
    if "--dump" in sys.argv:
        d = sys.argv[sys.argv.index("--dump") + 1]
    main(d)
