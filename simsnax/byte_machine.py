"""Byte-addressed machine (DESIGN.md §3.1 "Memory", "DMA engine"; C05, C11).

memref values are descriptors (aligned pointer, offset, sizes, strides in elements, element bytes).
snax_dma_1d_transfer / snax_dma_2d_transfer follow runtime/include/snax_rt.h (A7): `size` bytes x `repeat`
rows with independent source / destination strides; the row (burst) order of a 2-D transfer is drawn
from the environment.  Every DMA byte is checked online against the source / destination footprints.
"""
from __future__ import annotations

from . import compat

compat.install()

from xdsl.dialects import func, memref  # noqa: E402

from .interp import HarnessError, Machine, Violation, make_handler  # noqa: E402
from .tape import hkey  # noqa: E402

TABLE: dict = {}
handler = make_handler(TABLE)


class Desc:
    __slots__ = ("ptr", "off", "sizes", "strides", "elbytes")

    def __init__(self, ptr, off, sizes, strides, elbytes):
        self.ptr, self.off, self.sizes, self.strides, self.elbytes = ptr, off, list(sizes), list(strides), elbytes


class ByteMachine(Machine):
    EXTRA = TABLE

    def __init__(self, mod, seed=0, shuffle_rows=True):
        super().__init__(mod)
        self.mem: dict[int, object] = {}
        self.src_fp: set[int] = set()
        self.dst_fp: set[int] = set()
        self.seed = seed
        self.shuffle_rows = shuffle_rows
        self.transfers = 0
        self.bytes_moved = 0
        self.probes: dict = {}
        self.faults: dict = {}

    def probe(self, name, n=1):
        self.probes[name] = self.probes.get(name, 0) + n

    def fault(self, name, n=1):
        self.faults[name] = self.faults.get(name, 0) + n

    def dma(self, s, d, size, ss=0, ds=0, rep=1):
        self.transfers += 1
        rows = list(range(rep))
        if self.shuffle_rows and rep > 1:
            rows.sort(key=lambda k: hkey(self.seed, "row", self.transfers, k))
            self.fault("burst")
        if size < 0 or rep < 0:
            raise Violation("dma-arguments", f"DMA transfer with negative size/repeat ({size}, {rep})")
        if size * max(rep, 1) > 1 << 16:
            raise Violation("dma-arguments", f"DMA transfer of {size} x {rep} bytes is larger than any buffer in the test")
        for k in rows:
            for j in range(size):
                sa, da = s + k * ss + j, d + k * ds + j
                if sa not in self.src_fp:
                    raise Violation("footprint", f"DMA reads byte {sa:#x} outside the source's layout footprint")
                if da not in self.dst_fp:
                    raise Violation("footprint", f"DMA writes byte {da:#x} outside the destination's layout footprint")
                self.mem[da] = self.mem[sa]
                self.bytes_moved += 1


@handler(memref.DimOp)
def _dim(m, op, vals, core):
    vals[op.result] = m.get(vals, op.source).sizes[m.get(vals, op.index)]


@handler(memref.ExtractAlignedPointerAsIndexOp)
def _ptr(m, op, vals, core):
    vals[op.aligned_pointer] = m.get(vals, op.source).ptr


@handler(memref.ExtractStridedMetaDataOp)
def _meta(m, op, vals, core):
    d: Desc = m.get(vals, op.source)
    vals[op.base_buffer] = Desc(d.ptr, 0, [], [], d.elbytes)
    vals[op.offset] = d.off
    for k, s in enumerate(op.strides):
        vals[s] = d.strides[k]
    for k, s in enumerate(op.sizes):
        vals[s] = d.sizes[k]


@handler(func.CallOp)
def _call(m: ByteMachine, op, vals, core):
    callee = op.callee.string_value()
    a = [m.get(vals, o) for o in op.operands]
    if callee == "snax_dma_1d_transfer":
        m.dma(a[0], a[1], a[2])
    elif callee == "snax_dma_2d_transfer":
        m.dma(a[0], a[1], a[2], a[3], a[4], a[5])
    else:
        raise HarnessError(f"call to @{callee} not modelled")
