"""SimCluster (DESIGN.md §3): N cores executing the same function on shared, symbolic memory.

* cores are generators (interp.Machine.run_function); the scheduler draws the next runnable core
  from the tape; fault knobs: stall (a core is unrunnable for k picks), burst size, release order;
* the cluster hardware barrier releases when all N cores arrived (A5); a core that finished while
  others wait is a deadlock;
* memory cells hold symbolic provenance tags; a race monitor keeps, per cell, the last writer
  (core, epoch, op) and the readers since (two accesses from different cores in one barrier epoch,
  at least one a write => violation);
* memref.copy is a data-mover op, linalg.generic a compute op (independent re-statement of the
  dispatching rules; the repo's dispatch_to_dm/compute are code under test).  With roles="rules"
  a core skips ops that belong to another core; with roles="literal" the IR decides
  (func.call @snax_cluster_core_idx returns the core id) - used after dispatch-regions.
"""
from __future__ import annotations

import hashlib

from . import compat

compat.install()

from xdsl.dialects import arith, builtin, func, linalg, llvm, memref, test  # noqa: E402
from xdsl.dialects.builtin import IndexType, IntegerType, MemRefType, NoneAttr, StridedLayoutAttr  # noqa: E402
from xdsl.ir import Block  # noqa: E402

from snaxc.dialects import snax  # noqa: E402

from .interp import Core, HarnessError, Machine, StepLimit, Violation, make_handler  # noqa: E402

TABLE: dict = {}
handler = make_handler(TABLE)


class Buffer:
    __slots__ = ("name", "n", "external")

    def __init__(self, name, n, external):
        self.name = name
        self.n = n
        self.external = external


class View:
    __slots__ = ("buf", "offset", "sizes", "strides")

    def __init__(self, buf, offset, sizes, strides):
        self.buf = buf
        self.offset = offset
        self.sizes = tuple(sizes)
        self.strides = tuple(strides)

    def indices(self):
        def rec(d, base):
            if d == len(self.sizes):
                yield base
                return
            for i in range(self.sizes[d]):
                yield from rec(d + 1, base + i * self.strides[d])

        yield from rec(0, self.offset)

    def descr(self):
        return (self.buf.name, self.offset, self.sizes, self.strides)

    def __repr__(self):
        return f"{self.buf.name}[{self.offset}:{self.sizes}:{self.strides}]"


#: kernels the XDMA executes by itself through its streamer extensions (accelerators/streamers/extensions/*.py,
#: restated here): (kernel op name, input element type, output element type)
XDMA_EXTENSION_KERNELS = {("kernel.add", "i32", "i32"), ("kernel.rescale", "i8", "i32"), ("kernel.rescale", "i32", "i8")}


def role_of(op) -> str | None:
    """dm / compute / None (every core).  Written from the property statement, not from the repo."""
    if isinstance(op, memref.CopyOp):
        return "dm"
    if isinstance(op, linalg.GenericOp):
        return "compute"
    if op.name in ("dart.operation", "dart.schedule", "dart.access_pattern", "snax_stream.streaming_region"):
        acc = op.properties.get("accelerator")
        if acc is not None and acc.data == "snax_xdma":
            first = op.regions[0].block.first_op
            if not first.regions:
                return "compute"  # kernel-less transfer: judged as "exactly one of the two cores" by C14, see there
            inner = first.regions[0].block.first_op
            sig = (inner.name, str(inner.operands[0].type), str(inner.results[0].type))
            if sig in XDMA_EXTENSION_KERNELS:
                return "dm"
        return "compute"
    return None


def tag_of(op):
    a = op.attributes.get("vtag")
    if a is not None:
        return a.value.data
    if isinstance(op, linalg.GenericOp) and op.doc is not None:
        return op.doc.data
    if isinstance(op, memref.CopyOp):
        return ("copy-inserted-by-pass",)
    raise HarnessError(f"{op.name} without a site tag")


class BufferMachine(Machine):
    EXTRA = TABLE

    def by_name(self, op):
        if op.name in ("dart.operation", "dart.schedule", "dart.access_pattern"):
            return (True, _stream)
        return None

    def __init__(self, mod, n_cores=1, sequential=True, roles="rules", burst=0, monitor=True):
        super().__init__(mod)
        self.N = n_cores
        self.seq = sequential
        self.roles = roles
        self.burst = burst  # 0 = whole buffer per atomic action
        self.monitor = monitor
        self.mem: dict = {}
        self.lastw: dict = {}
        self.reads: dict = {}
        self.buffers: dict[str, Buffer] = {}
        self.alloc_by_site: dict = {}
        self.alloc_names: dict = {}
        self.oplog: list = []  # (core, tag, operand descriptors, contents read)
        self.probes: dict[str, int] = {}
        self.faults: dict[str, int] = {}
        self.sync_log: list = []
        self.l1_elbytes = 4
        self.global_ops_read = False
        self.static_addrs: dict = {}
        self.taint = False  # reference runs of the static-allocation variant: values computed from uninitialised data are 'undef'
        self.step_limit = 400_000

    def probe(self, name, n=1):
        self.probes[name] = self.probes.get(name, 0) + n

    def fault(self, name, n=1):
        self.faults[name] = self.faults.get(name, 0) + n

    # -- memory
    def new_buffer(self, name, n, external=False, garbage_site=None) -> Buffer:
        b = Buffer(name, n, external)
        self.buffers[name] = b
        for i in range(n):
            self.mem[(name, i)] = ("init", name, i) if external else ("garbage", garbage_site if garbage_site is not None else name, i)
        return b

    def mine(self, op, core: Core) -> bool:
        if self.seq or self.roles == "literal":
            return True
        r = role_of(op)
        if r == "dm":
            return core.id == self.N - 1
        if r == "compute":
            return core.id == 0
        return True

    def access(self, core: Core, kind, view_or_key, idx, desc):
        name = view_or_key
        key = (name, idx)
        if key not in self.mem:
            raise Violation("out-of-bounds", f"{desc} touches {name}[{idx}] outside the buffer")
        if self.monitor and not self.seq:
            lw = self.lastw.get(key)
            if lw is not None and lw[0] != core.id and lw[1] == core.epoch:
                raise Violation(
                    "race",
                    f"{'write' if kind == 'w' else 'read'} of {name}[{idx}] by core {core.id} [{desc}] and write by core {lw[0]} [{lw[2]}] in the same barrier epoch {core.epoch}",
                    ops=(desc, lw[2]),
                )
            if kind == "w":
                for rc, re_, rd in self.reads.get(key, ()):
                    if rc != core.id and re_ == core.epoch:
                        raise Violation(
                            "race",
                            f"write of {name}[{idx}] by core {core.id} [{desc}] and read by core {rc} [{rd}] in the same barrier epoch {core.epoch}",
                            ops=(desc, rd),
                        )
                self.lastw[key] = (core.id, core.epoch, desc)
                self.reads[key] = []
            else:
                self.reads.setdefault(key, []).append((core.id, core.epoch, desc))

    def chunks(self, idxs):
        b = self.burst or len(idxs) or 1
        for s in range(0, len(idxs), b):
            yield idxs[s : s + b]

    def externals(self):
        return {k: v for k, v in self.mem.items() if self.buffers[k[0]].external}


# ------------------------------------------------------------------ memref ops


def _static_or(vals_iter, statics, m, vals):
    out = []
    it = iter(vals_iter)
    for s in statics:
        if s == memref.DYNAMIC_INDEX:
            out.append(m.get(vals, next(it)))
        else:
            out.append(s)
    return out


DYN = -9223372036854775808


def memref_numel(t: MemRefType, dyn=()):
    n = 1
    it = iter(dyn)
    for d in t.get_shape():
        n *= next(it) if d in (-1, memref.DYNAMIC_INDEX) else d
    return n


def dense_strides(sizes):
    st = [1] * len(sizes)
    for i in range(len(sizes) - 2, -1, -1):
        st[i] = st[i + 1] * sizes[i + 1]
    return st


@handler(memref.AllocOp)
def _alloc(m: BufferMachine, op, vals, core):
    # A6: an alloc executed by several cores denotes one buffer (k-th execution of this site)
    k = core.occurrence(("alloc", id(op)))
    key = (id(op), k)
    b = m.alloc_by_site.get(key)
    dyn = [m.get(vals, d) for d in op.dynamic_sizes]
    t = op.memref.type
    sizes = []
    it = iter(dyn)
    for d in t.get_shape():
        sizes.append(next(it) if d in (-1, memref.DYNAMIC_INDEX) else d)
    if b is None:
        site = op.attributes.get("vsite")
        site = site.value.data if site is not None else len(m.alloc_names)
        dup = m.alloc_names.get(site, 0)
        m.alloc_names[site] = dup + 1
        name = f"alloc{site}" + (f"'{dup}" if dup else "") + (f"#{k}" if k > 1 else "")
        n = 1
        for s in sizes:
            n *= s
        b = m.new_buffer(name, n, external=False, garbage_site=f"alloc{site}")
        m.alloc_by_site[key] = b
    vals[op.memref] = View(b, 0, sizes, dense_strides(sizes))


@handler(memref.DeallocOp)
def _dealloc(m, op, vals, core):
    m.get(vals, op.memref)  # a no-op on the target (snax-to-func erases deallocs)


# -- statically allocated buffers (what snax-allocate emits): constant address -> llvm struct -> memref.  All such buffers
# are views of ONE address-indexed pseudo buffer, so two allocations that were given the same address share their cells
# (and the race monitor sees an access to one as an access to the other).

L1_NAME = "L1@"


@handler(llvm.UndefOp)
def _undef(m, op, vals, core):
    vals[op.res] = {}


@handler(llvm.InsertValueOp)
def _insertvalue(m, op, vals, core):
    d = dict(m.get(vals, op.container))
    d[tuple(op.position.get_values())] = m.get(vals, op.value)
    vals[op.res] = d


@handler(llvm.IntToPtrOp)
def _inttoptr(m, op, vals, core):
    v = m.get(vals, op.input)
    vals[op.output] = v & 0xFFFFFFFF


@handler(builtin.UnrealizedConversionCastOp)
def _ucc(m: BufferMachine, op, vals, core):
    v = m.get(vals, op.inputs[0])
    t = op.outputs[0].type
    if isinstance(v, dict) and isinstance(t, MemRefType):
        eb = t.get_element_type().size
        rank = len(t.get_shape())
        sizes = [v.get((3, i)) for i in range(rank)]
        if any(x is None for x in sizes) or (1,) not in v:
            raise Violation("descriptor", f"memref descriptor built by the allocator is incomplete: {sorted(v)}")
        if not isinstance(t.layout, NoneAttr):
            raise HarnessError("statically allocated buffers with a layout are not modelled")
        addr = v[(1,)]
        if addr % eb or eb != m.l1_elbytes:
            raise HarnessError(f"address {addr:#x} / element size {eb}: the address-indexed model uses {m.l1_elbytes}-byte cells")
        b = m.buffers.get(L1_NAME)
        if b is None:
            b = m.buffers[L1_NAME] = Buffer(L1_NAME, 0, False)
        off = addr // eb
        n = 1
        for x in sizes:
            n *= x
        for i in range(off, off + n):
            m.mem.setdefault((L1_NAME, i), ("garbage", L1_NAME, i))
        vals[op.outputs[0]] = View(b, off, sizes, dense_strides(sizes))
        m.probe("static-buffer")
        m.static_addrs.setdefault(id(op), addr)
        return
    if isinstance(v, int) and isinstance(t, IntegerType | IndexType):
        vals[op.outputs[0]] = v
        return
    vals[op.outputs[0]] = v


@handler(memref.SubviewOp)
def _subview(m: BufferMachine, op, vals, core):
    src: View = m.get(vals, op.source)
    offs = _static_or(op.offsets, [x for x in op.static_offsets.get_values()], m, vals)
    sizes = _static_or(op.sizes, [x for x in op.static_sizes.get_values()], m, vals)
    strides = _static_or(op.strides, [x for x in op.static_strides.get_values()], m, vals)
    off = src.offset + sum(o * s for o, s in zip(offs, src.strides))
    nstr = [a * b for a, b in zip(strides, src.strides)]
    rt = op.result.type
    if len(rt.get_shape()) != len(sizes):
        raise HarnessError("rank-reducing subview not modelled")
    vals[op.result] = View(src.buf, off, sizes, nstr)


@handler(memref.ReinterpretCastOp)
def _reinterpret(m, op, vals, core):
    src: View = m.get(vals, op.source)
    if op.offsets or op.sizes or op.strides:
        raise HarnessError("dynamic reinterpret_cast not modelled")
    off = [int(x) for x in op.static_offsets.get_values()][0]
    # offsets of a reinterpret_cast count from the base of the allocation (the generator only applies it to allocations, whose
    # view starts at that base)
    vals[op.result] = View(src.buf, src.offset + off, [int(x) for x in op.static_sizes.get_values()], [int(x) for x in op.static_strides.get_values()])


@handler(memref.MemorySpaceCastOp, snax.LayoutCast, memref.CastOp)
def _cast_alias(m, op, vals, core):
    # a cast that is still there names the same memory (realize-memref-casts leaves dead casts behind for DCE)
    vals[op.results[0]] = m.get(vals, op.operands[0])


@handler(memref.DimOp)
def _dim(m, op, vals, core):
    v: View = m.get(vals, op.source)
    vals[op.result] = v.sizes[m.get(vals, op.index)]


@handler(snax.ClusterSyncOp)
def _sync(m: BufferMachine, op, vals, core):
    if not m.seq:
        yield ("barrier",)
    core.epoch += 1
    core.hist.append(("barrier",))


def is_undef(x):
    return isinstance(x, tuple) and x and x[0] in ("garbage", "undef")


def _do_copy(m: BufferMachine, core, src: View, dst: View, desc, tag):
    si, di = list(src.indices()), list(dst.indices())
    if len(si) != len(di):
        raise Violation("copy-shape", f"{desc} copies between buffers of different shapes: {src} and {dst}")
    read = []
    first = True
    for cs, cd in zip(m.chunks(si), m.chunks(di)):
        if not first and not m.seq:
            yield ("mem",)
        first = False
        data = []
        for i in cs:
            m.access(core, "r", src.buf.name, i, desc)
            data.append(m.mem[(src.buf.name, i)])
        for i, v in zip(cd, data):
            m.access(core, "w", dst.buf.name, i, desc)
            m.mem[(dst.buf.name, i)] = v
        read += data
    m.oplog.append((core.id, tag, (src.descr(), dst.descr()), tuple(read)))
    if not m.seq:
        yield ("mem",)


@handler(memref.CopyOp)
def _copy(m: BufferMachine, op, vals, core):
    src, dst = m.get(vals, op.source), m.get(vals, op.destination)
    if not m.mine(op, core):
        return
    tag = tag_of(op)
    core.hist.append(("op", tag))
    yield from _do_copy(m, core, src, dst, f"memref.copy#{tag}", tag)


@handler(linalg.GenericOp)
def _generic(m: BufferMachine, op, vals, core):
    ins = [m.get(vals, v) for v in op.inputs if isinstance(v.type, MemRefType)]
    scalars = [m.get(vals, v) for v in op.inputs if not isinstance(v.type, MemRefType)]
    outs = [m.get(vals, v) for v in op.outputs]
    if not m.mine(op, core):
        return
    tag = tag_of(op)
    desc = f"linalg.generic#{tag}"
    core.hist.append(("op", tag))
    read = [("scalar", x) for x in scalars]
    # an output whose block argument is used by the body (accumulation) is read as well
    n_in = len(op.inputs)
    acc_outs = [v for v, arg in zip(outs, op.body.block.args[n_in:]) if arg.uses]
    # buffers the body looks into directly (gather / look-up table: memref.load of a captured buffer) are read as well;
    # a barrier inside the body is executed by the core that runs the kernel - and by nobody else
    captured = []
    for inner in op.body.walk():
        if isinstance(inner, snax.ClusterSyncOp):
            m.probe("barrier-inside-kernel-body")
            if not m.seq:
                yield ("barrier",)
            core.epoch += 1
            core.hist.append(("barrier",))
        for o in inner.operands:
            outside = inner is not op and not op.is_ancestor(o.owner if not isinstance(o.owner, Block) else o.owner.parent_op())
            if outside and isinstance(o.type, MemRefType) and o not in captured:
                captured.append(o)
            elif outside and not isinstance(o.type, MemRefType):
                read.append(("captured-scalar", m.get(vals, o)))  # a value of the enclosing scope the body uses directly
    if captured:
        m.probe("kernel-reads-captured-buffer")
    for v in ins + acc_outs + [m.get(vals, o) for o in captured]:
        idxs = list(v.indices())
        for ch in m.chunks(idxs):
            for i in ch:
                m.access(core, "r", v.buf.name, i, desc)
                read.append(m.mem[(v.buf.name, i)])
            if not m.seq:
                yield ("mem",)
    h = hashlib.blake2b(repr(read).encode(), digest_size=6).hexdigest()
    undef = m.taint and any(is_undef(x) for x in read)
    for oi, v in enumerate(outs):
        idxs = list(v.indices())
        pos = 0
        for ch in m.chunks(idxs):
            for i in ch:
                m.access(core, "w", v.buf.name, i, desc)
                m.mem[(v.buf.name, i)] = ("undef",) if undef else ("k", tag, oi, pos, h)
                pos += 1
            if not m.seq:
                yield ("mem",)
    m.oplog.append((core.id, tag, tuple(x.descr() for x in ins + outs), tuple(read)))


def _stream(m: BufferMachine, op, vals, core):
    """a streaming region is an opaque kernel: reads its inputs, writes its outputs."""
    ins = [m.get(vals, v) for v in op.operands[: len(op.operands) - 1]]
    outs = [m.get(vals, op.operands[-1])]
    if not m.mine(op, core):
        return
    tag = tag_of(op)
    desc = f"{op.name}#{tag}"
    core.hist.append(("op", tag))
    read = []
    for v in ins:
        for i in v.indices():
            m.access(core, "r", v.buf.name, i, desc)
            read.append(m.mem[(v.buf.name, i)])
    if not m.seq:
        yield ("mem",)
    h = hashlib.blake2b(repr(read).encode(), digest_size=6).hexdigest()
    undef = m.taint and any(is_undef(x) for x in read)
    for v in outs:
        for pos, i in enumerate(v.indices()):
            m.access(core, "w", v.buf.name, i, desc)
            m.mem[(v.buf.name, i)] = ("undef",) if undef else ("k", tag, 0, pos, h)
    m.oplog.append((core.id, tag, tuple(x.descr() for x in ins + outs), tuple(read)))


@handler(test.TestOp)
def _testop(m: BufferMachine, op, vals, core):
    tag = tag_of(op)
    ops = []
    for o in op.operands:
        v = m.get(vals, o)
        ops.append(v.descr() if isinstance(v, View) else v)
        if isinstance(v, View) and m.global_ops_read:
            # an op that every core executes and that looks into the buffer it is given (a load, a debug print, a call)
            read = []
            for i in v.indices():
                m.access(core, "r", v.buf.name, i, f"test.op#{tag}")
                read.append(m.mem[(v.buf.name, i)])
            m.oplog.append((core.id, ("global", tag), (v.descr(),), tuple(read)))
            if not m.seq:
                yield ("mem",)
    core.hist.append(("test", tag, tuple(ops)))
    for i, r in enumerate(op.results):
        vals[r] = 0


@handler(func.CallOp)
def _call(m: BufferMachine, op, vals, core):
    callee = op.callee.string_value()
    if callee == "snax_cluster_core_idx":
        vals[op.res[0]] = core.id
        return
    if callee == "snax_cluster_hw_barrier":
        # what snax-to-func makes of snax.cluster_sync_op
        if not m.seq:
            yield ("barrier",)
        core.epoch += 1
        core.hist.append(("barrier",))
        return
    f = m.funcs.get(callee)
    if f is not None and f.body.blocks:
        # a function defined in the module (e.g. the per-core specialisations made by function-constant-pinning)
        res = yield from m.run_function(callee, [m.get(vals, o) for o in op.operands], core)
        for r, v in zip(op.res, res):
            vals[r] = v
        return
    raise HarnessError(f"call to @{callee} not modelled")


# ------------------------------------------------------------------ scheduler


class Deadlock(Exception):
    pass


class Cluster:
    def __init__(self, machine: BufferMachine, args, tape, stall=True):
        self.m = machine
        self.args = args
        self.tape = tape
        self.stall_on = stall
        self.cores = [Core(c) for c in range(machine.N)]
        self.trace = hashlib.blake2b(digest_size=8)
        self.picks = 0

    def run(self, fn="f"):
        m = self.m
        N = m.N
        gens = {c: m.run_function(fn, list(self.args), self.cores[c]) for c in range(N)}
        waiting: set[int] = set()
        done: set[int] = set()
        stall = {c: 0 for c in range(N)}
        just_released: set[int] = set()
        while len(done) < N:
            runnable = [c for c in range(N) if c not in waiting and c not in done and stall[c] == 0]
            if not runnable:
                if any(stall[c] for c in range(N) if c not in waiting and c not in done):
                    for c in stall:
                        if stall[c]:
                            stall[c] -= 1
                    continue
                raise Violation(
                    "deadlock",
                    f"cores {sorted(waiting)} wait at the cluster barrier while cores {sorted(done)} already finished",
                )
            c = runnable[self.tape.choose("core", len(runnable))]
            for o in stall:
                if stall[o] and o != c:
                    stall[o] -= 1
            self.picks += 1
            if self.picks > m.step_limit:
                raise StepLimit("scheduler pick budget exhausted")
            try:
                ev = next(gens[c])
            except StopIteration:
                done.add(c)
                self.trace.update(f"{c}d".encode())
                continue
            if ev[0] == "barrier":
                waiting.add(c)
                self.trace.update(f"{c}b".encode())
                if len(waiting) == N:
                    waiting.clear()
                    just_released = set(range(N))
                    m.probe("barrier-release")
            else:
                self.trace.update(f"{c}m".encode())
            # stall fault: biased to land right after a barrier release or inside a multi-burst op
            if self.stall_on and (c in just_released or ev[0] == "mem"):
                just_released.discard(c)
                if self.tape.choose("stall?", 4) == 0:
                    stall[c] = 1 + self.tape.choose("stall-len", 6)
                    m.fault("stall")
        return self.trace.hexdigest()
