"""Seeds -> worker processes -> aggregate -> minimise -> replay files -> evidence -> exit code.

Exit codes (DESIGN.md §7): 0 held on everything explored; 1 + "VIOLATION property=<id> replay=<path>"
for a violation not listed as a known finding; 2 harness error / could not explore / worker timeout.
"""
from __future__ import annotations

import faulthandler
import hashlib
import importlib
import json
import multiprocessing
import os
import random
import sys
import time
import traceback
from concurrent.futures import ProcessPoolExecutor
from concurrent.futures import TimeoutError as FTimeout

from .tape import subseed

ROOT = os.path.dirname(os.path.dirname(os.path.abspath(__file__)))
HARNESS_VERSION = "1"
DEFAULT_SEED = 20260925


def load(prop_id: str):
    return importlib.import_module(f"simsnax.props.{prop_id.lower()}")


def case_for(mod, seed: int, idx: int, tier: str):
    rng = random.Random(subseed(seed, mod.ID, idx))
    case = mod.gen_case(rng, tier)
    case["_idx"] = idx
    return case


def safe_execute(mod, case):
    """execute() with harness errors turned into a status (never confused with ok / violation)."""
    from .interp import HarnessError, StepLimit

    try:
        out = mod.execute(case)
    except HarnessError as e:
        return {"status": "harness_error", "message": f"HarnessError: {e}", "oracle": None}
    except StepLimit:
        # a generated program that is too long for the step budget is a workload matter (properties that promise
        # progress catch StepLimit of the subject themselves and judge it)
        return {"status": "rejected", "rejected": "workload:step-limit", "oracle": None}
    except RecursionError as e:
        return {"status": "harness_error", "message": f"RecursionError: {e}", "oracle": None}
    except Exception as e:  # a bug in the harness must never look like a pass
        return {"status": "harness_error", "message": f"{type(e).__name__}: {e}\n{traceback.format_exc(limit=6)}", "oracle": None}
    return out


def _key(s: str) -> int:
    return int.from_bytes(hashlib.blake2b(s.encode(), digest_size=8).digest(), "little")


def work(prop_id: str, seed: int, tier: str, start: int, stop: int, wall_cap: float):
    """One chunk of run indices, executed in a forked worker."""
    faulthandler.dump_traceback_later(wall_cap, exit=True)
    from . import known

    mod = load(prop_id)
    agg = {
        "cases": 0,
        "ok": 0,
        "rejected": {},
        "harness_errors": [],
        "violations": [],
        "known": {},
        "probes": {},
        "faults": {},
        "steps": 0,
        "runs": 0,
        "zero_fault_runs": 0,
        "nontrivial_keys": set(),
        "interleavings": set(),
        "samples": [],
        "digest": [],
        "violation_count": 0,
    }
    for idx in range(start, stop):
        case = case_for(mod, seed, idx, tier)
        out = safe_execute(mod, case)
        agg["cases"] += 1
        st = out["status"]
        agg["digest"].append(f"{idx}:{st}:{out.get('digest', '')}:{out.get('oracle')}")
        for k in ("probes", "faults"):
            for n, v in out.get(k, {}).items():
                agg[k][n] = agg[k].get(n, 0) + v
        agg["steps"] += out.get("steps", 0)
        agg["runs"] += out.get("runs", 0)
        agg["zero_fault_runs"] += out.get("zero_fault_runs", 0)
        for il in out.get("interleavings", ()):
            agg["interleavings"].add(il)
        if st == "ok":
            agg["ok"] += 1
            if out.get("nontrivial"):
                agg["nontrivial_keys"].add(_key(json.dumps({k: v for k, v in case.items() if k != "_idx"}, sort_keys=True)))
                if len(agg["samples"]) < 2:
                    agg["samples"].append(mod.sample_of(case))
        elif st == "rejected":
            r = out.get("rejected") or "?"
            agg["rejected"][r] = agg["rejected"].get(r, 0) + 1
        elif st == "violation":
            agg["violation_count"] += 1
            kf = known.match(prop_id, case, out)
            if kf:
                agg["known"][kf] = agg["known"].get(kf, 0) + 1
            # keep the smallest few per (oracle, attribution)
            agg["violations"].append({"case": case, "outcome": _slim(out), "known": kf, "size": len(json.dumps(case))})
            agg["violations"].sort(key=lambda v: (v["known"] or "", v["outcome"]["oracle"], v["size"]))
            agg["violations"] = _cap_per_class(agg["violations"], 2)
        else:
            if len(agg["harness_errors"]) < 3:
                agg["harness_errors"].append({"idx": idx, "message": out.get("message")})
            agg["harness_error_count"] = agg.get("harness_error_count", 0) + 1
    faulthandler.cancel_dump_traceback_later()
    return agg


def _slim(out):
    return {k: out.get(k) for k in ("status", "oracle", "message", "env_index", "details", "tape") if k in out}


def _cap_per_class(vs, n):
    seen: dict = {}
    out = []
    for v in vs:
        c = (v["known"], v["outcome"]["oracle"])
        seen[c] = seen.get(c, 0) + 1
        if seen[c] <= n:
            out.append(v)
    return out


def minimise(mod, prop_id, case, outcome, kf, deadline):
    """Greedy structural shrinking; the violation class (oracle id + known-finding attribution)
    must persist (DESIGN.md §7)."""
    from . import known

    target = outcome["oracle"]
    tried = 0
    # schedule: make the recorded choice tape explicit so that it can be simplified like everything else
    # (lenient replay: a missing entry means "lowest runnable core", DESIGN.md 7)
    if outcome.get("tape") and outcome.get("env_index") is not None and "envs" in case:
        env = dict(case["envs"][outcome["env_index"]], tape=outcome["tape"])
        cand = dict(case, envs=[env])
        out = safe_execute(mod, cand)
        tried += 1
        if out["status"] == "violation" and out["oracle"] == target:
            case, outcome = cand, _slim(out)
    pos = 0  # resume where the last success happened: earlier candidates already failed once
    full_pass_without_success = False
    while not full_pass_without_success and time.time() < deadline:
        progressed = False
        j = -1
        for j, cand in enumerate(mod.shrink(case)):
            if j < pos:
                continue
            if time.time() > deadline:
                break
            tried += 1
            out = safe_execute(mod, cand)
            if out["status"] == "violation" and out["oracle"] == target and known.match(prop_id, cand, out) == kf:
                case, outcome = cand, _slim(out)
                progressed = True
                pos = j
                break
        if not progressed:
            if pos == 0:
                full_pass_without_success = True
            pos = 0
    return case, outcome, tried


def write_replay(prop_id, case, outcome, seed, name=None, directory="replays"):
    from . import compat

    mod = load(prop_id)
    os.makedirs(os.path.join(ROOT, directory), exist_ok=True)
    body = json.dumps(case, sort_keys=True)
    name = name or f"{prop_id}-{seed}-{hashlib.blake2b(body.encode(), digest_size=4).hexdigest()}.json"
    path = os.path.join(ROOT, directory, name)
    doc = {
        "property": prop_id,
        "oracle": outcome.get("oracle"),
        "violation": outcome,
        "seed": seed,
        "run_index": case.get("_idx"),
        "pythonhashseed": os.environ.get("PYTHONHASHSEED"),
        "case": case,
        "readable": mod.sample_of(case),
        "repo_head": compat.repo_head(),
        "harness_version": HARNESS_VERSION,
    }
    with open(path, "w") as f:
        json.dump(doc, f, indent=1, sort_keys=True)
    return path


def replay_file(path: str, quiet=False):
    """Re-executes a replay file on the current tree.  Returns (reproduced, outcome, doc)."""
    with open(path) as f:
        doc = json.load(f)
    mod = load(doc["property"])
    out = safe_execute(mod, doc["case"])
    want = doc["violation"]
    same = out["status"] == "violation" and out.get("oracle") == want.get("oracle")
    exact = same and out.get("message") == want.get("message")
    if not quiet:
        print(f"replay {path}: status={out['status']} oracle={out.get('oracle')} exact={exact}")
        if out.get("message"):
            print("  " + str(out["message"]))
    return same, exact, out, doc


def fresh_replay(path: str) -> bool:
    """Replays in a fresh interpreter; True iff the same violation class is reproduced."""
    import subprocess

    env = dict(os.environ, PYTHONPATH=ROOT)
    p = subprocess.run([sys.executable, "-m", "simsnax.cli", "replay", path], capture_output=True, text=True, env=env, cwd=ROOT, timeout=300)
    return p.returncode == 1 and "VIOLATION" in p.stdout


def run_check(prop_id: str, tier: str, seed: int, workers: int, n_cases: int | None = None, write_evidence=True, minimise_s=60.0):
    from . import evidence, known

    t0 = time.time()
    mod = load(prop_id)
    n = n_cases or mod.BUDGET[tier]
    print(f"VERIF_SEED={seed} property={prop_id} tier={tier} cases={n} workers={workers} PYTHONHASHSEED={os.environ.get('PYTHONHASHSEED')}", flush=True)

    chunk = max(1, min(250, n // (workers * 4) or 1))
    ranges = [(s, min(n, s + chunk)) for s in range(0, n, chunk)]
    wall_cap = {"quick": 900.0, "thorough": 4 * 3600.0}[tier]
    ctx = multiprocessing.get_context("fork")
    aggs = []
    harness_fail = None
    with ProcessPoolExecutor(max_workers=workers, mp_context=ctx) as ex:
        futs = [ex.submit(work, prop_id, seed, tier, a, b, wall_cap) for a, b in ranges]
        for f in futs:
            try:
                aggs.append(f.result(timeout=wall_cap))
            except FTimeout:
                harness_fail = "worker timeout"
                break
            except Exception as e:  # BrokenProcessPool etc.
                harness_fail = f"worker died: {type(e).__name__}: {e}"
                break
        if harness_fail:
            for f in futs:
                f.cancel()
            for p in list(getattr(ex, "_processes", {}).values()):
                try:
                    p.kill()
                except Exception:
                    pass
    if harness_fail:
        print(f"HARNESS-ERROR property={prop_id} {harness_fail}")
        return 2

    total = {"cases": 0, "ok": 0, "rejected": {}, "known": {}, "probes": {}, "faults": {}, "steps": 0, "runs": 0, "zero_fault_runs": 0, "violation_count": 0, "harness_error_count": 0}
    keys: set = set()
    inter: set = set()
    samples = []
    violations = []
    herrs = []
    dig = hashlib.blake2b(digest_size=8)
    for a in aggs:
        for k in ("cases", "ok", "steps", "runs", "zero_fault_runs", "violation_count"):
            total[k] += a[k]
        total["harness_error_count"] += a.get("harness_error_count", 0)
        for k in ("rejected", "known", "probes", "faults"):
            for nme, v in a[k].items():
                total[k][nme] = total[k].get(nme, 0) + v
        keys |= a["nontrivial_keys"]
        inter |= a["interleavings"]
        samples += a["samples"]
        violations += a["violations"]
        herrs += a["harness_errors"]
        for line in a["digest"]:  # chunks arrive in index order; the digest does not depend on the chunking
            dig.update((line + "|").encode())
    violations.sort(key=lambda v: (v["known"] or "", v["outcome"]["oracle"], v["size"]))
    violations = _cap_per_class(violations, 1)

    # -- known findings: replay the committed failing inputs first
    kf_lines = []
    findings = known.load_findings(prop_id)
    for kf in findings:
        if kf.get("status") != "open":
            continue
        same, exact, out, doc = replay_file(os.path.join(ROOT, kf["replay"]), quiet=True)
        if same:
            kf_lines.append(f"KNOWN-FINDING: property={prop_id} {kf['id']} {kf['what']}")
    for line in kf_lines:
        print(line)

    # -- unattributed violations: minimise, write replay, report
    reported = []
    open_ids = {kf["id"] for kf in findings if kf.get("status") == "open"}
    for v in violations:
        if v["known"] and v["known"] in open_ids:
            continue
        deadline = time.time() + minimise_s
        case, outcome, tried = minimise(mod, prop_id, v["case"], v["outcome"], v["known"], deadline)
        path = write_replay(prop_id, case, outcome, seed)
        ok = False
        try:
            ok = fresh_replay(path)
        except Exception:
            ok = False
        if not ok:  # report the un-minimised one instead
            path = write_replay(prop_id, v["case"], v["outcome"], seed)
        reported.append((path, outcome, tried))
        print(f"VIOLATION property={prop_id} replay={path}")
        print(f"  oracle={outcome['oracle']}: {outcome['message']}")
        print(f"  minimised with {tried} candidate executions; fresh-interpreter replay reproduced: {ok}")

    wall = time.time() - t0
    status = 0
    if reported:
        status = 1
    if total["harness_error_count"]:
        print(f"HARNESS-ERROR property={prop_id} {total['harness_error_count']} cases hit a harness error; first: {herrs[:1]}")
        status = status or 2
    floor = getattr(mod, "MIN_NONTRIVIAL", {}).get(tier, 2)
    if n_cases is None and len(keys) < floor and status == 0:
        print(f"HARNESS-ERROR property={prop_id} could not explore: only {len(keys)} non-trivial cases (floor {floor})")
        status = 2

    summary = {
        "cases": total["cases"],
        "ok": total["ok"],
        "violating_cases": total["violation_count"],
        "rejected": total["rejected"],
        "known": total["known"],
        "nontrivial_distinct": len(keys),
        "runs": total["runs"],
        "steps": total["steps"],
        "wall_s": round(wall, 2),
        "digest": dig.hexdigest(),
    }
    print("SUMMARY " + json.dumps(summary, sort_keys=True))
    if write_evidence:
        evidence.write(
            mod,
            prop_id,
            tier,
            seed,
            wall,
            total,
            len(keys),
            len(inter),
            samples[:3],
            [r[0] for r in reported],
            kf_lines,
            dig.hexdigest(),
            workers,
        )
    return status
