"""Effect-trace machine (DESIGN.md §5 C17): one core; records every tagged side-effecting op with its
evaluated operands (index values; for memref operands the allocation-site identity, offsets and sizes)."""
from __future__ import annotations

from . import compat

compat.install()

from xdsl.dialects import affine, memref, test  # noqa: E402

from .interp import HarnessError, Machine, Violation, make_handler  # noqa: E402

TABLE: dict = {}
handler = make_handler(TABLE)


class Ref:
    """A memref value: where it comes from (alloc site / argument), its offsets and sizes; `inst` tells the executions
    of one allocation site apart (not part of the trace: hoisting an allocation changes it on purpose)."""

    __slots__ = ("site", "offs", "sizes", "inst")

    def __init__(self, site, offs, sizes, inst=None):
        self.site, self.offs, self.sizes, self.inst = site, tuple(offs), tuple(sizes), inst

    def descr(self):
        return (self.site, self.offs, self.sizes)


class EffectMachine(Machine):
    EXTRA = TABLE

    def __init__(self, mod):
        super().__init__(mod)
        self.hist: list = []
        self.allocs: list = []
        self.n_inst = 0
        self.freed: set = set()
        self.cells: dict = {}  # contents of buffers written with memref.store: (site, absolute index) -> value
        self.probes: dict = {}

    def probe(self, name, n=1):
        self.probes[name] = self.probes.get(name, 0) + n


def _tag(op):
    a = op.attributes.get("vtag")
    if a is None:
        raise HarnessError(f"{op.name} without a site tag")
    return a.value.data


@handler(test.TestOp)
def _testop(m: EffectMachine, op, vals, core):
    ops = []
    for o in op.operands:
        v = m.get(vals, o)
        if isinstance(v, Ref) and v.inst in m.freed:
            raise Violation("use-after-free", f"op #{_tag(op)} uses a buffer of allocation site {v.site[1]} after it was freed")
        ops.append(v.descr() if isinstance(v, Ref) else v)
    m.hist.append((_tag(op), tuple(ops)))
    for r in op.results:
        vals[r] = 0


@handler(memref.AllocOp)
def _alloc(m: EffectMachine, op, vals, core):
    dyn = iter([m.get(vals, d) for d in op.dynamic_sizes])
    sizes = [next(dyn) if d in (-1, memref.DYNAMIC_INDEX) else d for d in op.memref.type.get_shape()]
    site = op.attributes.get("vsite")
    site = site.value.data if site is not None else id(op)
    m.n_inst += 1
    vals[op.memref] = Ref(("alloc", site), [0] * len(sizes), sizes, inst=m.n_inst)
    m.allocs.append((site, tuple(sizes)))


@handler(memref.CastOp, memref.MemorySpaceCastOp)
def _cast(m, op, vals, core):
    vals[op.dest] = m.get(vals, op.source)


@handler(memref.LoadOp)
def _load(m: EffectMachine, op, vals, core):
    r: Ref = m.get(vals, op.memref)
    idx = tuple(a + m.get(vals, i) for a, i in zip(r.offs, op.indices))
    vals[op.res] = m.cells.get((r.site, idx), ("uninitialised", r.site, idx))


@handler(memref.StoreOp)
def _store(m: EffectMachine, op, vals, core):
    r: Ref = m.get(vals, op.memref)
    idx = tuple(a + m.get(vals, i) for a, i in zip(r.offs, op.indices))
    m.cells[(r.site, idx)] = m.get(vals, op.value)


@handler(memref.DeallocOp)
def _dealloc(m, op, vals, core):
    r = m.get(vals, op.memref)
    if isinstance(r, Ref) and r.inst is not None:
        if r.inst in m.freed:
            raise Violation("double-free", f"memref.dealloc of a buffer of allocation site {r.site[1]} that was freed before (an allocation moved out of a loop whose body still frees it)")
        m.freed.add(r.inst)


@handler(memref.DimOp)
def _dim(m: EffectMachine, op, vals, core):
    v = m.get(vals, op.source)
    vals[op.result] = v.sizes[m.get(vals, op.index)]


@handler(memref.SubviewOp)
def _subview(m: EffectMachine, op, vals, core):
    src: Ref = m.get(vals, op.source)

    def mix(dyn, static):
        it = iter(dyn)
        return [m.get(vals, next(it)) if s == memref.DYNAMIC_INDEX else s for s in static.get_values()]

    offs = mix(op.offsets, op.static_offsets)
    sizes = mix(op.sizes, op.static_sizes)
    offs = [a + b for a, b in zip(src.offs, offs)]
    drop = len(sizes) - len(op.result.type.get_shape())
    if drop > 0:
        # rank-reducing subview (MLIR: computeRankReductionMask): walking the sizes, a size that equals the next dimension
        # of the result shape is kept, any other size must be a unit dimension and is dropped
        static = list(op.static_sizes.get_values())
        rshape = list(op.result.type.get_shape())
        keep = []
        for j, st in enumerate(static):
            if len(keep) < len(rshape) and st == rshape[len(keep)]:
                keep.append(j)
            elif st != 1:
                raise HarnessError("subview sizes do not match the result shape")
        offs_full = tuple(offs)
        sizes = [sizes[j] for j in keep]
        vals[op.result] = Ref(src.site, list(offs_full), sizes, inst=src.inst)
        return
    vals[op.result] = Ref(src.site, offs, sizes, inst=src.inst)


@handler(affine.MinOp)
def _affmin(m: EffectMachine, op, vals, core):
    amap = op.map.data
    operands = [m.get(vals, o) for o in op.operands]
    dims, syms = operands[: amap.num_dims], operands[amap.num_dims :]
    vals[op.result] = min(amap.eval(dims, syms))


@handler(affine.ApplyOp)
def _affapply(m: EffectMachine, op, vals, core):
    amap = op.map.data
    operands = [m.get(vals, o) for o in op.mapOperands]
    vals[op.result] = amap.eval(operands[: amap.num_dims], operands[amap.num_dims :])[0]
