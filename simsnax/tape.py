"""One integer decides everything (DESIGN.md §3.3).

subseed(VERIF_SEED, property, run index) -> int; every scheduler / fault decision of a run goes
through Tape.choose(label, n) and is recorded as (label, n, value).  Replay feeds the recorded
values back; in lenient mode (used only while minimising) a missing or out-of-range entry falls
back to 0, in strict mode it is an error.
"""
from __future__ import annotations

import hashlib
import random


def subseed(seed: int, prop: str, idx: int, stream: str = "") -> int:
    h = hashlib.blake2b(f"{seed}|{prop}|{idx}|{stream}".encode(), digest_size=8).digest()
    return int.from_bytes(h, "little")


def hkey(seed: int, *key) -> int:
    """Pure hash used by the Environment: value = f(site tag, dynamic occurrence, run seed)."""
    h = hashlib.blake2b(repr((seed,) + key).encode(), digest_size=8).digest()
    return int.from_bytes(h, "little")


class ReplayError(Exception):
    pass


class Tape:
    def __init__(self, seed: int | None = None, replay: list | None = None, strict: bool = True):
        self.rng = random.Random(seed) if replay is None else None
        self.replay = replay
        self.pos = 0
        self.strict = strict
        self.log: list[tuple[str, int, int]] = []

    def choose(self, label: str, n: int) -> int:
        """A value in range(n)."""
        if n <= 1:
            return 0
        if self.replay is not None:
            if self.pos < len(self.replay):
                lab, nn, v = self.replay[self.pos]
                self.pos += 1
                if lab != label or v >= n:
                    if self.strict:
                        raise ReplayError(f"tape mismatch at {self.pos - 1}: recorded {lab}/{nn}, asked {label}/{n}")
                    v = 0
            else:
                if self.strict:
                    raise ReplayError("tape exhausted")
                v = 0
        else:
            v = self.rng.randrange(n)
        self.log.append((label, n, v))
        return v

    def digest(self) -> str:
        return hashlib.blake2b(repr(self.log).encode(), digest_size=8).hexdigest()
