"""Independent layout oracle (DESIGN.md §5 C05): address of a logical index under a tiled-strided
layout = offset + sum over tile digits (mixed radix by the tile bounds, outermost first) of digit x step.
Written from snaxc/ir/tsl/README.md, shares no code with the repo."""
from __future__ import annotations

import itertools


def address(idx, tile_bounds, steps, offset=0):
    a = offset
    for d, i in enumerate(idx):
        for k in reversed(range(len(tile_bounds[d]))):
            a += (i % tile_bounds[d][k]) * steps[d][k]
            i //= tile_bounds[d][k]
    return a


def shape_of(tile_bounds):
    out = []
    for tb in tile_bounds:
        n = 1
        for b in tb:
            n *= b
        out.append(n)
    return out


def all_indices(shape):
    return itertools.product(*[range(n) for n in shape])


def tsl_text(tile_bounds, steps, offset, dyn=()):
    """dyn: set of (dim, depth, 'b'|'s') printed as '?'."""

    def f(d, k, what, v):
        return "?" if (d, k, what) in dyn else str(v)

    s = ", ".join(
        f"[{', '.join(f(d, k, 'b', b) for k, b in enumerate(tb))}] -> ({', '.join(f(d, k, 's', t) for k, t in enumerate(st))})"
        for d, (tb, st) in enumerate(zip(tile_bounds, steps))
    )
    return f"#tsl.tsl<{s}{', offset: %d' % offset if offset else ''}>"
