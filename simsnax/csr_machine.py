"""CSR-level machine (DESIGN.md §3.1 / §5 C04): executes the output of convert-accfg-to-csr.

* `csrw addr, val` / `csrr addr` / `nop` / `.insn r CUSTOM_3, 0x3, f7, x0, rs1, rs2` are interpreted
  from the llvm.inline_asm strings;
* registers are indexed by *address*; which field an address belongs to is taken from the
  accfg.accelerator op of the *input* module (the declaration, not the lowering);
* a write to a launch address starts a job (latches the register file by address, device busy
  for a seeded latency); consecutive launch writes belong to one job;
* a read of the barrier address follows the accelerator's polling convention (non-zero while busy
  for SNAXPollingBarrier / SNAXPollingBarrier3, `(v >> 1) == 1` when idle for style 2); a read of
  any other address returns seeded garbage (0 and non-0);
* SNAXPollingBarrier accelerators (hwpe_mult) must be cleared by a write to 0x3c5 after a job
  finished and before the next launch (docstring of SNAXPollingBarrier);
* the two status registers behind launch_streamer (busy, performance counter) are read-only: a
  write to them is a violation (that is where a shifted register map lands);
* effectful calls clobber registers through the declared map with the same pure hash as the
  accfg-level machine, so both machines meet the same environment.
"""
from __future__ import annotations

import re

from . import compat

compat.install()

from xdsl.dialects import func, llvm, test  # noqa: E402

from .accfg_machine import contract_effects  # noqa: E402
from .interp import Core, HarnessError, Machine, Violation, make_handler, wrap  # noqa: E402
from .tape import hkey  # noqa: E402

TABLE: dict = {}
handler = make_handler(TABLE)

CLEAR_ADDR = 0x3C5
_INSN = re.compile(r"\.insn r CUSTOM_(\d+), 0x3, (\d+) ,x0, \$0, \$1")


class AccDecl:
    """The declared register map of one accelerator (from the input module's accfg.accelerator)."""

    def __init__(self, acc_op, style: str, rocc: bool):
        self.name = acc_op.name_prop.string_value()
        self.fields = {n: v.value.data for n, v in acc_op.field_items()}
        self.launch = {n: v.value.data for n, v in acc_op.launch_field_items()}
        self.barrier = acc_op.barrier.value.data
        self.style = style
        self.rocc = rocc
        self.by_addr: dict[int, list[str]] = {}
        for n, a in self.fields.items():
            self.by_addr.setdefault(a, []).append(n)
        self.launch_by_addr: dict[int, list[str]] = {}
        for n, a in self.launch.items():
            self.launch_by_addr.setdefault(a, []).append(n)
        self.reserved: set[int] = set()
        if not rocc and "launch_streamer" in self.launch:
            self.reserved = {self.launch["launch_streamer"] + 1, self.launch["launch_streamer"] + 2}

    def injectivity_problem(self) -> str | None:
        """Static companion of the dynamic snapshot oracle (CSR-configured accelerators only)."""
        if self.rocc:
            return None
        seen: dict[int, str] = {}
        items = [(n, a) for n, a in self.fields.items()] + [("launch:" + n, a) for n, a in self.launch.items()]
        items.append(("barrier", self.barrier))
        items += [(f"reserved-status-{i}", a) for i, a in enumerate(sorted(self.reserved))]
        for n, a in items:
            if a in seen:
                return f"{self.name}: '{seen[a]}' and '{n}' share address {a:#x}"
            seen[a] = n
        return None


def style_of(acc) -> tuple[str, bool]:
    from snaxc.accelerators.rocc import RoCCAccelerator
    from snaxc.accelerators.snax import SNAXPollingBarrier, SNAXPollingBarrier2, SNAXPollingBarrier3, SNAXPollingBarrier4

    if isinstance(acc, RoCCAccelerator):
        return "rocc", True
    if isinstance(acc, SNAXPollingBarrier):
        return "poll-clear", False
    if isinstance(acc, SNAXPollingBarrier2):
        return "poll2", False
    if isinstance(acc, SNAXPollingBarrier3):
        return "poll", False
    if isinstance(acc, SNAXPollingBarrier4):
        return "write-block", False
    raise HarnessError(f"unknown barrier style of {type(acc).__name__}")


class CsrDevice:
    def __init__(self, decl: AccDecl, label: str):
        self.d = decl
        self.regs: dict[int, object] = {}  # by address
        self.label = label
        self.busy_until = 0
        self.jobs = 0
        self.in_launch = False
        self.needs_clear = False
        self.awaiting = False
        self.launch_writes: list = []

    def read_reg(self, addr):
        return self.regs.get(addr, ("poweron", self.label, addr))


class CsrMachine(Machine):
    EXTRA = TABLE

    def __init__(self, mod, env, decls: list[AccDecl], label="sub"):
        super().__init__(mod)
        self.env = env
        self.seed = env["seed"]
        self.devs = [CsrDevice(d, label) for d in decls]
        self.hist: list = []
        self.probes: dict[str, int] = {}
        self.faults: dict[str, int] = {}
        self.polls = 0
        self.rocc_state: dict[int, tuple] = {}  # funct7 -> operand pair last issued
        self.in_rocc_launch = False
        self.rocc_group: set[int] = set()
        self.rocc_launch_f7 = {a for d in decls if d.rocc for a in d.launch.values()}
        self.rocc_name = next((d.name for d in decls if d.rocc), None)
        #: programs with per-channel gemmx launches: every launch-register write is logged with its own register snapshot
        self.split_launch = False

    def probe(self, name, n=1):
        self.probes[name] = self.probes.get(name, 0) + n

    def fault(self, name, n=1):
        self.faults[name] = self.faults.get(name, 0) + n

    def close_launch(self, dev: CsrDevice | None = None):
        self.in_rocc_launch = False
        for d in self.devs:
            if d.in_launch and d is not dev:
                d.in_launch = False

    # -- CSR bus
    def csrw(self, addr, val):
        addr &= 0xFFF
        owner = None
        for d in self.devs:
            if d.d.rocc:
                continue
            if addr in d.d.launch_by_addr:
                owner = d
                self.launch_write(d, addr, val)
                break
            if addr in d.d.by_addr:
                owner = d
                self.close_launch()
                if d.busy_until > self.now:
                    self.probe("setup-write-while-busy")
                d.regs[addr] = val
                # a non-injective map makes one write hit several declared fields: all are logged
                for n in d.d.by_addr[addr]:
                    self.hist.append(("w", d.d.name, n, val))
                break
            if addr in d.d.reserved:
                raise Violation("reserved-register", f"write of {val!r} to read-only status register {addr:#x} of {d.d.name}")
            if addr == d.d.barrier and d.d.style != "poll-clear":
                raise Violation("barrier-register", f"write of {val!r} to the barrier register {addr:#x} of {d.d.name}")
            if d.d.style == "poll-clear" and addr == CLEAR_ADDR:
                owner = d
                self.close_launch()
                if d.busy_until > self.now:
                    raise Violation("await", f"{d.d.name} cleared while still busy")
                d.needs_clear = False
                self.hist.append(("clear", d.d.name))
                break
        if owner is None:
            raise Violation("undeclared-register", f"csrw to address {addr:#x} that no accelerator declares (value {val!r})")

    def launch_write(self, d: CsrDevice, addr, val):
        if d.d.style == "write-block" and norm_val(val, 32) == 0:
            # style 4: a write of 0 to a launch register starts nothing and blocks the core while the device is busy
            self.close_launch()
            if d.busy_until > self.now:
                self.probe("write-blocked-while-busy")
                self.now = d.busy_until
            if d.awaiting:
                d.awaiting = False
                self.hist.append(("await", d.d.name))
            return
        if not d.in_launch or self.split_launch:
            self.close_launch()
            if d.busy_until > self.now:
                raise Violation("await", f"launch of {d.d.name} while it is still busy (the preceding await returned early or is missing)")
            if d.needs_clear:
                raise Violation("await", f"launch of {d.d.name} before the finished job was cleared (write to {CLEAR_ADDR:#x} missing)")
            d.in_launch = True
            d.jobs += 1
            lat = self.env.get("latency", 0)
            if lat:
                lat = 1 + hkey(self.seed, "lat", d.d.name, d.jobs) % lat
                self.fault("latency")
            d.busy_until = self.now + lat
            d.awaiting = True
            if d.d.style == "poll-clear":
                d.needs_clear = True
            self.hist.append(("launch", d.d.name, dict(d.regs)))
        for n in d.d.launch_by_addr[addr]:
            self.hist.append(("lw", d.d.name, n, val))

    def csrr(self, addr):
        addr &= 0xFFF
        self.polls += 1
        self.close_launch()
        for d in self.devs:
            if d.d.rocc:
                continue
            if addr == d.d.barrier:
                busy = d.busy_until > self.now
                if busy:
                    self.probe("poll-while-busy")
                    # the core spins; let simulated time pass quickly but keep a few real polls
                    if d.busy_until - self.now > 8:
                        self.now = d.busy_until - 8
                    return 0 if d.d.style == "poll2" else 1
                self.hist.append(("await", d.d.name))
                self.probe("await-returned-idle")
                return 2 if d.d.style == "poll2" else 0
        # not a barrier: seeded garbage
        self.fault("csr-garbage")
        g = hkey(self.seed, "garbage", addr, self.polls)
        return 0 if g % 3 == 0 else 1 + g % 7

    def clobber(self, tag, k):
        fired = False
        if self.env.get("clobber"):
            for d in sorted(self.devs, key=lambda x: x.d.name):
                for f in sorted(d.d.fields):
                    if hkey(self.seed, "clob", tag, k, d.d.name, f) % 2:
                        if d.d.rocc:
                            continue
                        d.regs[d.d.fields[f]] = ("clob", tag, k, f)
                        fired = True
        if fired:
            self.fault("clobber")


def _tag(op):
    a = op.attributes.get("vtag")
    if a is None:
        raise HarnessError(f"{op.name} without a site tag")
    return a.value.data


@handler(llvm.InlineAsmOp)
def _asm(m: CsrMachine, op, vals, core):
    s = op.asm_string.data
    ops = [m.get(vals, o) for o in op.operands]
    if s.startswith("csrw"):
        m.csrw(ops[0], ops[1])
    elif s.startswith("csrr"):
        vals[op.results[0]] = wrap(m.csrr(ops[0]), 32)
    elif s == "nop":
        pass
    else:
        mm = _INSN.match(s)
        if not mm:
            raise HarnessError(f"inline asm not modelled: {s}")
        f7 = int(mm.group(2))
        if f7 in m.rocc_launch_f7:
            # one launch = one instruction per launch funct7; a repeated funct7 starts the next launch
            if not m.in_rocc_launch or f7 in m.rocc_group:
                m.close_launch()
                m.in_rocc_launch = True
                m.rocc_group = set()
                m.hist.append(("rlaunch", m.rocc_name, dict(m.rocc_state)))
            m.rocc_group.add(f7)
        else:
            m.close_launch()
            m.rocc_state[f7] = (ops[0], ops[1])
        m.hist.append(("insn", f7, ops[0], ops[1]))


def _call(m: CsrMachine, op, vals, core):
    tag = _tag(op)
    k = core.occurrence(("call", tag))
    m.close_launch()
    m.hist.append(("call", tag, k))
    if contract_effects(op):
        m.clobber(tag, k)


handler(func.CallOp, llvm.CallOp)(_call)


@handler(test.TestOp)
def _testop(m: CsrMachine, op, vals, core):
    tag = _tag(op)
    k = core.occurrence(("opq", tag))
    m.close_launch()
    m.hist.append(("opaque", tag, k, tuple(m.get(vals, o) for o in op.operands)))
    for i, r in enumerate(op.results):
        vals[r] = 1 + hkey(m.seed, "opq", tag, k, i) % 5


# ------------------------------------------------------------------ history normalisation


ANY = ("any",)


def _insn_match(ref_list, sub_list):
    """Multiset match of RoCC instruction events where a reference operand may be ANY."""
    sub = list(sub_list)
    for r in sorted(ref_list, key=lambda e: (e[2] == ANY) + (e[3] == ANY)):
        for j, s_ in enumerate(sub):
            if s_[1] == r[1] and (r[2] == ANY or r[2] == s_[2]) and (r[3] == ANY or r[3] == s_[3]):
                del sub[j]
                break
        else:
            return f"missing {r!r}; unmatched in lowered program: {sub[:3]!r}"
    if sub:
        return f"unexpected {sub[:3]!r}"
    return None


def norm_val(v, bits):
    return v & ((1 << bits) - 1) if isinstance(v, int) else v


def normalise_reference(hist, decls: dict[str, AccDecl], split_launch=False):
    """accfg-level history -> the events the lowered program must produce."""
    out = []
    for e in hist:
        k = e[0]
        if k == "setup":
            d = decls[e[1]]
            if d.rocc:
                regs, linked = e[3], e[5]
                written = {n for n, _ in e[2]}
                names = []
                for n, _ in e[2]:
                    if n[:-4] not in names:
                        names.append(n[:-4])
                for nm in names:
                    # an operand this setup does not write must be the value in effect when the setup is
                    # linked to a previous state (the lowering has to retrace it); for a setup without an
                    # input state the partner is unknown to the compiler (declared default 0) and is not
                    # judged here - the values in effect at the next launch are (rlaunch)
                    pair = [norm_val(regs[nm + s_], 64) if ((nm + s_) in written or linked) else ANY for s_ in (".rs1", ".rs2")]
                    out.append(("insn", d.fields[nm + ".rs1"], pair[0], pair[1]))
            else:
                for n, v in e[2]:
                    out.append(("w", e[1], n, norm_val(v, 32)))
        elif k == "launch":
            d = decls[e[1]]
            if d.rocc:
                lv = dict(e[2])
                names = []
                for n in lv:
                    if n[:-4] not in names:
                        names.append(n[:-4])
                out.append(("rlaunch", e[1], {f: norm_val(e[3][f], 64) for f in e[5]}))
                for nm in names:
                    out.append(("insn", d.launch[nm + ".rs1"], norm_val(lv[nm + ".rs1"], 64), norm_val(lv[nm + ".rs2"], 64)))
            else:
                snap = {f: norm_val(e[3][f], 32) for f in e[4]}
                if not split_launch:
                    out.append(("launch", e[1], snap))
                for n, v in e[2]:
                    if split_launch:
                        out.append(("launch", e[1], snap))
                    out.append(("lw", e[1], n, norm_val(v, 32)))
        elif k == "pclaunch":
            lv = dict(e[2])
            regs, w = e[3][0]
            out.append(("launch", e[1], {f: norm_val(regs[f], 32) for f in w}))
            out.append(("lw", e[1], "launch_streamer", norm_val(lv["launch_streamer"], 32)))
            for regs, w in e[3][1:]:
                out.append(("launch", e[1], {f: norm_val(regs[f], 32) for f in w}))
                out.append(("lw", e[1], "launch_gemmx", norm_val(lv["launch_gemmx"], 32)))
                out.append(("await", e[1]))
        elif k == "await":
            if not decls[e[1]].rocc:
                out.append(("await", e[1]))
        else:
            out.append(e)
    return out


def normalise_subject(hist, decls: dict[str, AccDecl]):
    out = []
    for e in hist:
        k = e[0]
        if k == "w" or k == "lw":
            out.append((k, e[1], e[2], norm_val(e[3], 32)))
        elif k == "insn":
            out.append(("insn", e[1], norm_val(e[2], 64), norm_val(e[3], 64)))
        elif k == "rlaunch":
            out.append(("rlaunch", e[1], {f7: (norm_val(p[0], 64), norm_val(p[1], 64)) for f7, p in e[2].items()}))
        elif k == "clear":
            continue
        else:
            out.append(e)
    return out


def _segments(events):
    """Group maximal runs of unordered events (field writes of one setup, launch-field writes of one
    launch, RoCC instructions) into sorted multisets; everything else stays ordered."""
    out = []
    run = []
    kind = None
    for e in events:
        if e[0] in ("w", "lw", "insn"):
            if kind not in (None, e[0]):
                out.append((kind, sorted(run, key=repr)))
                run = []
            kind = e[0]
            run.append(e)
        else:
            if run:
                out.append((kind, sorted(run, key=repr)))
                run, kind = [], None
            out.append(e)
    if run:
        out.append((kind, sorted(run, key=repr)))
    return out


def compare_csr(ref_events, sub_events, decls: dict[str, AccDecl], ignore_writes=False) -> str | None:
    if ignore_writes:
        # programs with per-channel gemmx launches: which field writes the launch lowering issues itself is its own
        # business; what counts is the register contents at every launch (snapshots), the launch writes and the awaits
        ref_events = [e for e in ref_events if e[0] != "w"]
        sub_events = [e for e in sub_events if e[0] != "w"]
    a, b = _segments(ref_events), _segments(sub_events)
    for k, (x, y) in enumerate(zip(a, b)):
        if x[0] != y[0]:
            return f"segment {k}: reference has {x[0]} {str(x[1])[:120]}, lowered program has {y[0]} {str(y[1])[:120]}"
        if x[0] == "insn":
            d_ = _insn_match(x[1], y[1])
            if d_:
                return f"segment {k} (insn): {d_}"
        elif x[0] == "rlaunch":
            d = decls[x[1]]
            for f, v in x[2].items():
                pair = y[2].get(d.fields[f])
                got = norm_val(pair[0 if f.endswith(".rs1") else 1], 64) if pair else ("never-issued", f)
                if got != v:
                    return f"segment {k}: at launch of {x[1]} the value in effect for {f} is {got!r}, the configured value is {v!r}"
        elif x[0] in ("w", "lw"):
            if x[1] != y[1]:
                from collections import Counter

                cx, cy = Counter(map(repr, x[1])), Counter(map(repr, y[1]))
                miss = list((cx - cy).elements())  # multiset difference: a write issued once too few shows up as well
                extra = list((cy - cx).elements())
                return f"segment {k} ({x[0]}): missing {miss[:3]!r} unexpected {extra[:3]!r}"
        elif x[0] == "launch":
            d = decls[x[1]]
            for f, v in x[2].items():
                got = norm_val(y[2].get(d.fields[f], ("never-written", f)), 32)
                if got != v:
                    return f"segment {k}: at launch of {x[1]} register {d.fields[f]:#x} declared for field {f} holds {got!r}, the configured value is {v!r}"
        elif x != y:
            return f"segment {k}: reference {x!r} vs lowered {y!r}"
    if len(a) != len(b):
        longer = a if len(a) > len(b) else b
        who = "reference" if len(a) > len(b) else "lowered program"
        return f"history length: {len(a)} vs {len(b)} segments; first extra in {who}: {str(longer[min(len(a), len(b))])[:160]}"
    return None


def leftover_accfg(mod) -> str | None:
    """Oracle 5 (static): nothing of an accfg type or op survives the lowering."""
    from snaxc.dialects import accfg

    for op in mod.walk():
        if op.name.startswith("accfg."):
            return f"op {op.name} survives the lowering"
        for v in list(op.operands) + list(op.results):
            if isinstance(v.type, (accfg.StateType, accfg.TokenType)):
                return f"{op.name} still has a value of type {v.type}"
        for r in op.regions:
            for b in r.blocks:
                for a in b.args:
                    if isinstance(a.type, (accfg.StateType, accfg.TokenType)):
                        return f"a block argument of {op.name} still has type {a.type}"
    return None
