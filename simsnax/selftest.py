"""Self-tests of the machinery (DESIGN.md §10).  None of these is a property check.

  ./check selftest-determinism [--cases N]   same seed -> same event-log digest: fresh interpreters, 1 and 16 workers,
                                             PYTHONHASHSEED 0 and 12345
  ./check selftest-sensitivity [--cases N]   every mutant in mutants/ (search/replace or reverse patch of a fix) applied to a
                                             scratch copy of the repo must make its property's check print VIOLATION
  ./check selftest-replay                    committed replays: open known findings reproduce, fixed ones do not
  ./check selftest-fidelity                  upstream FileCheck RUN lines through the mini FileCheck
"""
from __future__ import annotations

import glob
import json
import os
import re
import subprocess
import sys
import time

ROOT = os.path.dirname(os.path.dirname(os.path.abspath(__file__)))


def claimed():
    with open(os.path.join(ROOT, "MANIFEST.json")) as f:
        return [c["property_id"] for c in json.load(f)["checks"]]


def run_check(prop, cases, workers, hashseed, seed, extra_env=None, wrapper=None, timeout=1800):
    env = dict(os.environ, PYTHONPATH=ROOT)
    env["PYTHONHASHSEED"] = str(hashseed)
    env.update(extra_env or {})
    cmd = [sys.executable, "-m", "simsnax.cli", prop, "--cases", str(cases), "--workers", str(workers), "--seed", str(seed), "--no-evidence"]
    if wrapper:
        cmd = wrapper + ["--"] + cmd
    p = subprocess.run(cmd, capture_output=True, text=True, env=env, cwd=ROOT, timeout=timeout)
    m = re.search(r'"digest": "([0-9a-f]+)"', p.stdout)
    return p.returncode, (m.group(1) if m else None), p.stdout


def determinism(args):
    cases = args.cases or 200
    bad = 0
    for prop in claimed():
        digs = {}
        for seed in (7, 20260925):
            row = []
            for workers, hs in ((1, 0), (16, 0), (16, 12345), (5, 99)):
                rc, d, out = run_check(prop, cases, workers, hs, seed)
                row.append(d)
                if rc == 2:
                    print(f"  {prop} seed={seed} workers={workers} hashseed={hs}: harness error\n{out[-400:]}")
            digs[seed] = row
            ok = len(set(row)) == 1 and row[0] is not None
            bad += not ok
            print(f"determinism {prop} seed={seed}: {'OK' if ok else 'DIVERGED'} {row}")
    print("selftest-determinism:", "PASS" if not bad else f"FAIL ({bad} diverging rows)")
    return 0 if not bad else 1


def sensitivity(args):
    cases = args.cases or 1500
    only = args.path
    results = []
    t0 = time.time()
    files = sorted(glob.glob(os.path.join(ROOT, "mutants", "*.json")) + glob.glob(os.path.join(ROOT, "mutants", "*.diff")))
    meta_props = {}
    for f in files:
        name = os.path.basename(f).rsplit(".", 1)[0]
        if name.endswith(".meta") or name == "LAST_RESULT" or (only and only not in name):
            continue
        if f.endswith(".json"):
            m = json.load(open(f))
            prop = m["property"]
            spec = [f]
            expect = m.get("expect", "caught")
        else:
            side = f[:-5] + ".meta.json"
            m = json.load(open(side)) if os.path.exists(side) else {}
            prop = m.get("property")
            spec = ["--patch", f]
            expect = m.get("expect", "caught")
            if prop is None:
                print(f"  {name}: no property recorded, skipped")
                continue
        meta_props[name] = prop
        props = prop if isinstance(prop, list) else [prop]
        caught_by = []
        for p in props:
            rc, d, out = run_check(p, max(cases, m.get("cases", 0)), 16, 0, 20260925, wrapper=[sys.executable, os.path.join(ROOT, "tools", "with_mutant.py")] + spec)
            if "MUTANT-DOES-NOT-APPLY" in out:
                caught_by = ["DOES-NOT-APPLY"]
                break
            if rc == 1 and "VIOLATION" in out:
                caught_by.append(p)
        status = "caught" if caught_by and caught_by != ["DOES-NOT-APPLY"] else ("n/a" if caught_by else "MISSED")
        results.append((name, props, status, caught_by, expect))
        print(f"sensitivity {name} [{','.join(props)}]: {status} {caught_by} (expected {expect})", flush=True)
    missed = [r for r in results if r[2] == "MISSED" and r[4] == "caught"]
    print(f"selftest-sensitivity: {sum(r[2] == 'caught' for r in results)}/{len(results)} caught, {len(missed)} unexpectedly missed, {time.time() - t0:.0f}s")
    with open(os.path.join(ROOT, "mutants", "LAST_RESULT.json"), "w") as f:
        json.dump([{"mutant": r[0], "properties": r[1], "status": r[2], "caught_by": r[3], "expected": r[4]} for r in results], f, indent=1)
    return 0 if not missed else 1


def replay(args):
    from . import runner

    bad = 0
    kf = json.load(open(os.path.join(ROOT, "known_findings.json")))
    for f in kf["findings"]:
        same, exact, out, doc = runner.replay_file(os.path.join(ROOT, f["replay"]), quiet=True)
        want = f.get("status") == "open"
        ok = same == want
        bad += not ok
        print(f"replay {f['replay']}: reproduces={same} exact={exact} (open finding: expected {want}) {'OK' if ok else 'UNEXPECTED'}")
    for p in sorted(glob.glob(os.path.join(ROOT, "known", "fixed", "*.json"))):
        same, exact, out, doc = runner.replay_file(p, quiet=True)
        ok = not same and out["status"] != "harness_error"
        bad += not ok
        print(f"replay {os.path.relpath(p, ROOT)}: reproduces={same} status={out['status']} (fixed defect: expected not to reproduce) {'OK' if ok else 'UNEXPECTED'}")
    print("selftest-replay:", "PASS" if not bad else f"FAIL ({bad})")
    return 0 if not bad else 1


def fidelity(args):
    from .tools import fidelity as F

    c = F.main()
    return 0 if c.get("True", 0) >= 50 else 1


def main(what, args):
    return {"selftest-determinism": determinism, "selftest-sensitivity": sensitivity, "selftest-replay": replay, "selftest-fidelity": fidelity}[what](args)
